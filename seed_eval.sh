#!/bin/sh
# usage: seed_eval.sh <seed-id> <check args...>   e.g.  seed_eval.sh C14 C14 --tier quick
# Applies /verif/seeded/<id>/patch.diff to /repo, runs ./check with the given args, undoes the patch.
set -u
id=$1; shift
cd /verif
git -C /repo diff --quiet || { echo "/repo has uncommitted changes"; exit 3; }
git -C /repo apply /verif/seeded/$id/patch.diff || { echo "patch does not apply"; exit 3; }
./check "$@" > /verif/.work/seed_$id.$1.log 2>&1
rc=$?
git -C /repo checkout -- .
echo "seed=$id check=$* exit=$rc"
grep -E "^VIOLATION|^INCONCLUSIVE|^KNOWN|done in" /verif/.work/seed_$id.$1.log | cut -c1-260
exit $rc
