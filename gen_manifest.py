#!/usr/bin/env python3
"""Regenerates /verif/MANIFEST.json from the table below (kept next to the driver so that the
claims, the design references and the harness registry stay in one place)."""
import json, subprocess

TECH = ("bounded model checking of the compiled Rust code: Kani 0.68 proof harnesses (rustc MIR -> CBMC 6.11 -> SAT, "
        "CaDiCaL) over symbolic inputs with unwinding assertions on; counterexamples replayed natively before reporting")

CLAIMS = {
 "C01": ("The real Mp4Writer::finalize (standard and fast-start layout) is executed symbolically on hook-built writers with "
         "<= 3 video + <= 2 audio samples and symbolic 64-bit presentation times; every chunk offset / size / sync entry handed to "
         "the moov builder must point at the place where a recording sink saw that sample's payload, ranges tile the mdat exactly. "
         "Table serialisers (stsz/stco/stsc/stss) and re-framing are decided as kernels (C02/C03/C14). Bounded: sample counts, "
         "payload sizes 1..3 bytes, key pattern K N K; the real moov bytes are replaced by a recording stand-in.",
         "build_moov_box replaced by a recording stand-in (records the tables into a harness-owned carrier); assert_invariant stub; "
         "writer state built by a hook constructor (reachability of those states is argued, not solved); Kani/CBMC/rustc trusted.", "§4 C01"),
 "C02": ("Per builder: build_box (both copies) for payloads 0..16 bytes; stbl (video 0..3 samples incl. ctts/stss, audio), "
         "trak/mdia/minf hierarchy, the whole moov with 1 sample (and 1+1 with metadata), the fragmented init segment and the media "
         "segment (via C10) are snapshotted and walked with a strict reader: declared sizes tile the parent exactly, mandatory "
         "children once and in order, entry counts consistent with the sample count. Top-level order (ftyp, one moov, at most one "
         "mdat) is asserted in the C01/C08 finalize harnesses.",
         "Sample values symbolic where the memory cap allows (sizes, offsets); run-length tables use concrete distinct durations so that "
         "box layout stays concrete; fmt::format stubbed; bounded shapes only.", "§4 C02"),
 "C03": ("Kernel chain, each link decided for all values inside its bound: API seconds->ticks rounding (one f64 product, all bit "
         "patterns), writer duration back-patching for video and audio (one step from any state), SampleTables::from_samples "
         "(<= 3 samples: durations, last-sample fallback, composition offsets, has-reordering flag, total duration), stts/ctts "
         "run-length encode/decode identity (<= 4 entries), mdhd duration (C19/C16). That finalize hands exactly these tables to the "
         "moov builder is asserted in the C08 harnesses.",
         "Composition of the links is argued in DESIGN.md, not solved; |pts-dts| < 2^31 and ticks < 2^63 assumed (C16 decides the rest).", "§4 C03"),
 "C04": ("One symbolic call (write_video / write_audio with every f64 bit pattern, symbolic key flag, frames from a concrete menu) "
         "from fresh / after-keyframe / after-keyframe+audio states for VP9, AV1, H.264 and Opus/AAC/none: Ok iff the executable "
         "reference contract holds, and every error variant names a violated precondition. Builder: build succeeds iff video configured.",
         "Single step from prefix states built by real API calls with concrete arguments; a +-2 tick band around the rounding "
         "boundaries is left to C03; finish/after-finish clauses are in C06; fmt::format and String::push stubbed (messages not checked).", "§4 C04"),
 "C05": ("Same step harnesses as C04: for every argument vector on which the call returns Err, the complete state digest of Muxer "
         "and Mp4Writer (all scalars, counters, last samples' fields) is bit-identical before and after; plus the two-step scenario "
         "'rejected first video frame, then audio'. Fragmented write_video: C10 step harness.",
         "State equality implies behavioural equality because every later decision and finalize are functions of that state (argued).", "§4 C05"),
 "C06": ("Writer level (both layouts, hook-built states, symbolic times): nothing reaches the sink before finalize, bytes_written = "
         "bytes delivered, file = ftyp + moov + mdat accounting, second finalize and all later writes refused without writing; "
         "max_end_pts vs 'max over samples of pts+duration'. API level: finish_in_place(_with_stats) once, stats fields, every later "
         "call AlreadyFinished.", "moov stand-in; consuming finish()/finish_with_stats()/flush() delegate by one line each (read, not solved); "
         "duration_secs f64 division not decided.", "§4 C06"),
 "C07": ("extract_avc_config / extract_hevc_config vs the reference unit list (all byte strings of 8-9 bytes, plus constructive "
         "layouts with repeated differing parameter sets); extract_av1_config vs a reference implementation of the AV1 "
         "sequence_header_obu()/color_config() syntax (all payloads of 5, 7, 10, 13 bytes: every header branch incl. timing_info / "
         "decoder_model reachable at 13); extract_vp9_config vs the documented accepted form (7..14 bytes); AudioSpecificConfig for "
         "all rates/channel counts; writer keeps the FIRST keyframe's configuration; record builders avcC/hvcC/av1C/vpcC/esds/dOps "
         "and sample entries (progressive + fragmented) are the C19 template harnesses.",
         "AV1: operating_points_cnt <= 2, uvlc leading zeros <= 8, seq_profile <= 2 assumed and stated; unwindset on the AV1 operating-point "
         "loop justified by that assumption; reference models in /verif/kani/src/ref_*.rs are trusted (AV1 model cross-checked natively on "
         "1.2M random payloads).", "§4 C07"),
 "C08": ("Both layouts are decided against ONE layout-independent reference computed from the symbolic inputs: identical sizes, "
         "durations, composition offsets, sync list, chunking; chunk offsets absolute for the layout (ftyp+8 resp. ftyp+moov+8) for two "
         "different moov lengths; top-level order; placeholder and final pass of fast start see tables of identical shape; the API flag "
         "reaches the writer.", "moov stand-in of configurable length stands for metadata of any length; <= 2 video + 1 audio samples; pts < 2^31.", "§4 C08"),
 "C09": ("Cross-track timeline relation on the tables the real Mp4Writer::finalize hands to the moov builder (both layouts, 1 video + 2 audio "
         "samples, all first video pts/dts and audio pts < 2^31 with dts <= pts <= first audio pts, any audio gap < 2^30), read with the "
         "ISO 14496-12 rules of a track without edit list (DT(0)=0, CT = DT + ctts): presentation time of each audio sample minus "
         "that of the first video sample = difference of the submitted ticks. That the real trak builders emit exactly {tkhd, mdia} - no "
         "edts - is decided by c02_trak_video_1 / c02_trak_audio_1 (run under C09 too). Holds exactly when the audio starts at the first "
         "video decode time; every other start is the known finding KF-C09-no-track-start-offset (witness harness; natively reproduced "
         "on the real moov).",
         "Tick level (the f64 seconds->ticks rounding is the C03 conversion harness: that is where the property's 'within one tick' goes); "
         "moov stand-in + structural argument that build_moov_box receives nothing but the tables; 3 samples; an edit-list based repair would "
         "need the stand-in extended (the native oracle refuses to judge a file with edts).", "§4 C09"),
 "C10": ("(a) build_media_segment for 1..3 queued samples with symbolic pts/dts/sync/bytes/sequence/base: exactly moof+mdat, sizes "
         "tile, data_offset points at sample 0, per-sample size/flags, payload = queue in order. (b) step relation of write_video, "
         "flush_segment, ready_to_flush, current_fragment_duration_ms from arbitrary hook-built states with 0..2 queued samples: "
         "reject iff dts < last_dts, rejected write changes nothing, flush of empty queue is a no-op, sequence number +1 per segment, "
         "queue emptied. Conservation over any interleaving follows by induction from (a)+(b).",
         "Induction step over a state invariant (last_dts = last accepted DTS >= queued DTS) stated in the harness; payload sizes 0..3 bytes.", "§4 C10/C11"),
 "C11": ("Timing clauses of the segment kernel (duration = DTS difference, last = previous, lone sample 3000; composition offset; "
         "non-sync flag), base-time update clauses of flush_segment (never before the last sample, never backwards, last DTS + interval "
         "for constant spacing), init_segment byte-identical and state-neutral across calls.",
         "The stream-wide-constant clause is only decided as the one-step relation base' = last.dts + d; ticks < 2^62.", "§4 C10/C11"),
 "C12": ("Every public parser / keyframe detector / config extractor of codec::* on all byte strings up to 6..12 bytes, Opus helpers, "
         "fragmented muxer methods from hook-built states with symbolic scalars, the API write/encode calls as single steps (C04 harnesses "
         "plus encode_video/encode_audio with symbolic frames), and the finalize kernels (stsz, sample entries, calendar loop, language "
         "codes): no panic, overflow, out-of-bounds access or unbounded loop. Seven remaining panic/hang sites are listed as known findings "
         "with witness harnesses; five were repaired (fix: commits).",
         "finish* with the real moov assembly, Metadata::with_current_time, Display impls and validation::* (String/format heavy) are outside; "
         "dev-profile overflow semantics.", "§4 C12"),
 "C13": ("finalize on both layouts with ONE misbehaving write call at every (concrete, enumerated) call index whose behaviour is symbolic: "
         "hard error, Interrupted, or any accepted byte count incl. 0: no panic, Err iff a write ultimately failed, accepted chunks are a "
         "prefix of the reference byte stream, nothing is written by any later call, and without a hard failure bytes and byte count equal "
         "the fault-free run. API level: failure surfaces as MuxerError::Io.",
         "Fault index concrete per harness instance, fault behaviour symbolic; sample times concrete; reference stream assembled from the real "
         "ftyp + reference layout.", "§4 C13"),
 "C14": ("find_start_code == reference position predicate (all strings <= 10 bytes, any from), AnnexBNalIter == reference unit list as "
         "sub-slices (<= 8 bytes), annexb_to_avcc / hevc_annexb_to_hvcc append exactly the non-empty reference units with 4-byte lengths or "
         "the whole-input fallback (<= 8 bytes), adts_to_raw accepts iff the ISO 14496-3 header predicate holds and returns "
         "frame[hdr..declared] (all 2^72 headers, buffers 6..12 bytes).",
         "Vec::extend_from_slice replaced by a recording stand-in in the conversion harnesses (which slices are appended in which order; std's "
         "copy trusted); fmt::format / String::push stubbed in adts_to_raw.", "§4 C14"),
 "C15": ("compute_interleave_schedule is a permutation sorted by (pts, video-before-audio, index) for up to 3+2 samples with symbolic "
         "times; the order in which payloads reach the sink in both layouts equals that merge; non-reordered video stays in sample order.",
         "moov stand-in; <= 2+1 samples through finalize.", "§4 C15"),
 "C16": ("One harness per narrowing site with the wide quantity symbolic over its full range: mdhd duration, ctts offset, tkhd 16.16 dims, "
         "fragmented sample-entry dims, mp4a 16.16 rate, writer 32-bit delta guards (hold), trun duration / composition offset, API f64->u64 "
         "tick conversion. Eight silent truncations are listed as known findings with witness harnesses.",
         "mvhd millisecond conversion, mdat/chunk-offset 4 GiB guards and 64 KiB parameter sets are outside (not encodable / CBMC crash).", "§4 C16"),
 "C18": ("days_to_ymd(0)=1970-01-01 and day d+1 is the Gregorian successor of day d for all d up to 2037 (thorough; 1989 quick) plus "
         "validity to 2119 incl. the non-leap year 2100; language packing recoverable for all 26^3 codes in both copies and through mdhd; "
         "udta tree for all presence combinations and all well-formed UTF-8 titles of 0..4 bytes.",
         "Text rendering of the date (core::fmt) and the time-of-day arithmetic inside format_unix_timestamp do not finish symbolically: not "
         "claimed; 'metadata touches nothing else' not claimed.", "§4 C18"),
 "C19": ("Every fixed-layout header box and configuration record, progressive and fragmented, against a spec-derived template with the "
         "symbolic inputs at the prescribed positions (mvhd, tkhd, mdhd, hdlr, vmhd, smhd, dinf, ftyp, visual/audio sample entries, avcC, "
         "hvcC, av1C, vpcC, esds, dOps, mvex/trex, mfhd, tfhd, tfdt). Seven layout deviations are listed as known findings with witnesses.",
         "Which boxes the moov assembly includes is C02; templates transcribed from ISO/IEC 14496-12/-14/-15 and the AV1/VP9/Opus bindings.", "§4 C19"),
}

NA = {
 "C17": "quantifies over thread schedules and all sink types: Kani does not model concurrency and Send/Sync is a type-check, not a solver query; "
        "byte-identity of equivalent API paths needs whole output files (real moov), which do not fit",
 "C20": "process-level behaviour of the CLI binary (clap, file system, exit status); its hex / box-walk kernels are inline in I/O functions of "
        "a bin target and cannot be reached by the engine without rewriting them",
}


def main():
    hooks = subprocess.run(["git", "-C", "/repo", "log", "--format=%h %s"], capture_output=True, text=True).stdout.split("\n")
    hook_commits = [l.split()[0] for l in hooks if "verif hooks" in l]
    checks = []
    for pid in sorted(CLAIMS):
        text, note, ref = CLAIMS[pid]
        checks.append(dict(
            property_id=pid, quick_cmd=f"./check {pid} --tier quick", thorough_cmd=f"./check {pid} --tier thorough",
            evidence_file=f"/verif/evidence/{pid}.json", replay_cmd_template=f"./check {pid} --replay {{path}}", engine="kani",
            level_claimed=dict(category="model_checking", text=text, design_ref=ref), level_note=note, technique=TECH))
    m = dict(
        version=1, setup_cmd="./setup.sh",
        hooks=dict(guard="cargo feature `verif` (#[cfg(feature = \"verif\")] modules in src/lib.rs, src/api.rs, src/fragmented.rs, src/muxer/mp4.rs)",
                   enable="the harness crate /verif/kani depends on muxide = { path = \"/repo\", features = [\"verif\"] }; every check rebuilds it with cargo kani",
                   baseline_off_cmd="cd /repo && cargo test --workspace --no-fail-fast --offline",
                   source_commits=hook_commits, add_only=True),
        engines=[dict(name="kani", path="/verif/kani", serves_properties=sorted(CLAIMS),
                      kind_free_text="Kani 0.68 proof harnesses (CBMC 6.11 + CaDiCaL) over the real crate; driver /verif/check "
                                     "(registry from //@ annotations, memory-aware scheduling, native replay, known findings)")],
        checks=checks,
        not_applicable=[dict(property_id=k, reason=v) for k, v in sorted(NA.items())],
        notes="Exit 2 of a check = inconclusive (timeout / memory cap / unwinding assertion / vacuity witness / non-replaying counterexample), "
              "never success; in the thorough tier a thorough-only depth harness that exhausts its time/memory cap is printed and recorded as "
              "UNEXPLORED and does not decide the exit status. KNOWN-FINDING lines come from /verif/known_findings.json (read-only at run time).")
    json.dump(m, open("/verif/MANIFEST.json", "w"), indent=1)
    print("MANIFEST.json written:", len(checks), "checks,", len(NA), "not applicable")


if __name__ == "__main__":
    main()
