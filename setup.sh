#!/bin/sh
# Offline setup: scratch dirs + one warm-up codegen of the harness crate against /repo
# (every check rebuilds from /repo's working tree anyway).
set -e
cd "$(dirname "$0")"
mkdir -p .work evidence replays
export CARGO_NET_OFFLINE=true
python3 ./check C14 --list >/dev/null
cd kani
cargo kani -Z stubbing --features c14 --target-dir ../.work/target-C14 --only-codegen >../.work/setup.log 2>&1 || { tail -50 ../.work/setup.log; exit 1; }
echo "setup ok"
