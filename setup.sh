#!/bin/sh
# Offline setup: create scratch dirs and make sure the Kani toolchain can compile the
# harness crate against /repo (one warm-up codegen; each check rebuilds from /repo anyway).
set -e
cd "$(dirname "$0")"
mkdir -p .work evidence replays
export CARGO_NET_OFFLINE=true
cd kani
cargo kani -Z stubbing --features c14 --target-dir ../.work/target-C14 --only-codegen >../.work/setup.log 2>&1 || { tail -50 ../.work/setup.log; exit 1; }
echo "setup ok"
