//! C02 — every emitted byte stream is a well-formed ISO-BMFF tree with mandatory boxes.
//! Decided per builder on snapshots: declared sizes tile the parent exactly, mandatory
//! children present once and in order, table entry counts mutually consistent.
use crate::bx::*;
use crate::stubs::*;
use muxide::api::{AudioCodec, Metadata};
use muxide::codec::vp9::Vp9Config;
use muxide::fragmented::verif as fh;
use muxide::fragmented::FragmentConfig;
use muxide::verif_hooks::mp4::verif as mp4h;
use muxide::verif_hooks::mp4::{Mp4AudioTrack, Mp4VideoTrack, VideoConfig};

macro_rules! h {
    ($name:ident, $unw:expr, $body:block) => {
        #[kani::proof]
        #[kani::unwind($unw)]
        #[kani::stub(muxide::invariant_ppt::__assert_invariant_impl, crate::stubs::assert_invariant_stub)]
        #[kani::stub(alloc::fmt::format, crate::stubs::format_stub)]
        pub fn $name() {
            $body;
            crate::vcover!(true, "harness end reached");
        }
    };
}

// ---- the single box constructor (both copies) ------------------------------------------
macro_rules! box_h {
    ($name:ident, $n:expr) => {
        h!($name, 4, {
            let p: [u8; $n] = kani::any();
            let t: [u8; 4] = kani::any();
            let a = snap::<{ 8 + $n }>(&mp4h::build_box(&t, &p));
            let b = snap::<{ 8 + $n }>(&fh::build_box(&t, &p));
            assert!(be32(&a, 0) as usize == 8 + $n && be32(&b, 0) as usize == 8 + $n, "size = 8 + payload");
            assert!(a[4] == t[0] && a[5] == t[1] && a[6] == t[2] && a[7] == t[3] && is_type(&b, 4, &t), "type verbatim");
            let mut i = 0;
            while i < $n {
                assert!(a[8 + i] == p[i] && b[8 + i] == p[i], "payload verbatim");
                i += 1;
            }
        });
    };
}
//@ prop=C02 tier=quick cost=16 fns="muxer::mp4::build_box,fragmented::build_box" bound="empty payload, any type" unwind=4
box_h!(c02_box_len0, 0);
//@ prop=C02 tier=quick cost=10 fns="muxer::mp4::build_box,fragmented::build_box" bound="all payloads of 1 byte, any type" unwind=4
box_h!(c02_box_len1, 1);
//@ prop=C02 tier=quick cost=12 fns="muxer::mp4::build_box,fragmented::build_box" bound="all payloads of 7 bytes, any type" unwind=10
#[kani::proof]
#[kani::unwind(10)]
#[kani::stub(muxide::invariant_ppt::__assert_invariant_impl, crate::stubs::assert_invariant_stub)]
pub fn c02_box_len7() {
    let p: [u8; 7] = kani::any();
    let t: [u8; 4] = kani::any();
    let a = snap::<15>(&mp4h::build_box(&t, &p));
    let b = snap::<15>(&fh::build_box(&t, &p));
    assert!(be32(&a, 0) == 15 && be32(&b, 0) == 15 && is_type(&a, 4, &t) && is_type(&b, 4, &t));
    let mut i = 0;
    while i < 7 {
        assert!(a[8 + i] == p[i] && b[8 + i] == p[i]);
        i += 1;
    }
    crate::vcover!(true, "reached");
}
//@ prop=C02 tier=thorough cost=10 fns="muxer::mp4::build_box,fragmented::build_box" bound="all payloads of 16 bytes, any type" unwind=19
#[kani::proof]
#[kani::unwind(19)]
#[kani::stub(muxide::invariant_ppt::__assert_invariant_impl, crate::stubs::assert_invariant_stub)]
pub fn c02_box_len16() {
    let p: [u8; 16] = kani::any();
    let t: [u8; 4] = kani::any();
    let a = snap::<24>(&mp4h::build_box(&t, &p));
    let b = snap::<24>(&fh::build_box(&t, &p));
    assert!(be32(&a, 0) == 24 && be32(&b, 0) == 24 && is_type(&a, 4, &t) && is_type(&b, 4, &t));
    let mut i = 0;
    while i < 16 {
        assert!(a[8 + i] == p[i] && b[8 + i] == p[i]);
        i += 1;
    }
    crate::vcover!(true, "reached");
}

// ---- sample table containers ---------------------------------------------------------------
fn vp9() -> VideoConfig {
    VideoConfig::Vp9(Vp9Config { width: 64, height: 48, profile: 0, bit_depth: 8, color_space: 0, transfer_function: 0, matrix_coefficients: 0, level: 0, full_range_flag: 0 })
}
fn vec_u32<const N: usize>(a: [u32; N]) -> Vec<u32> {
    let mut v = Vec::with_capacity(N);
    for x in a {
        v.push(x);
    }
    v
}
fn vec_i32<const N: usize>(a: [i32; N]) -> Vec<i32> {
    let mut v = Vec::with_capacity(N);
    for x in a {
        v.push(x);
    }
    v
}

/// stbl of a video track with N samples (all key frames; durations are the concrete distinct
/// values 1000, 2000, ... so that the run-length tables have a concrete shape; sizes and
/// chunk offsets symbolic), interleaved chunking (one chunk per sample).
fn stbl_video_body<const N: usize, const MAX: usize>(has_b: bool) {
    let sizes: [u32; N] = kani::any();
    let offs: [u32; N] = kani::any();
    let mut i = 0;
    while i < N {
        kani::assume(sizes[i] > 0); // INV-004 (zero-size samples) is a C12 matter
        i += 1;
    }
    let durs: [u32; N] = core::array::from_fn(|i| 1000 * (i as u32 + 1));
    let cts: [i32; N] = core::array::from_fn(|i| if has_b { 10 * (i as i32 + 1) } else { 0 });
    let keys: [u32; N] = core::array::from_fn(|i| i as u32 + 1);
    let t = mp4h::mk_tables(vec_u32(durs), vec_u32(sizes), vec_u32(keys), vec_u32(offs), 1, vec_i32(cts), has_b);
    let out = mp4h::build_stbl_box(&Mp4VideoTrack { width: 64, height: 48 }, &t, &vp9());
    let (v, n) = snapn::<MAX>(&out);
    let stsd = 118;
    let stts = 16 + 8 * N;
    let ctts = 16 + 8 * N;
    let stsc = if N > 0 { 28 } else { 16 };
    let stsz = 20 + 4 * N;
    let stco = 16 + 4 * N;
    let stss = 16 + 4 * N;
    let total = 8 + stsd + stts + if has_b { ctts } else { 0 } + stsc + stsz + stco + if N > 0 { stss } else { 0 };
    assert!(n == total && box_is(&v, 0, n, b"stbl"), "stbl spans the whole output");
    // mandatory children in order; ctts iff reordering; stss iff key frames
    let (o_stts, o_ctts, o_stsc, o_stsz, o_stco, o_stss);
    if has_b && N > 0 {
        let o = expect_sized(&v, 8, n, [(b"stsd", stsd), (b"stts", stts), (b"ctts", ctts), (b"stsc", stsc), (b"stsz", stsz), (b"stco", stco), (b"stss", stss)]);
        o_stts = o[1]; o_ctts = o[2]; o_stsc = o[3]; o_stsz = o[4]; o_stco = o[5]; o_stss = o[6];
    } else if N > 0 {
        let o = expect_sized(&v, 8, n, [(b"stsd", stsd), (b"stts", stts), (b"stsc", stsc), (b"stsz", stsz), (b"stco", stco), (b"stss", stss)]);
        o_stts = o[1]; o_ctts = 0; o_stsc = o[2]; o_stsz = o[3]; o_stco = o[4]; o_stss = o[5];
    } else {
        let o = expect_sized(&v, 8, n, [(b"stsd", stsd), (b"stts", stts), (b"stsc", stsc), (b"stsz", stsz), (b"stco", stco)]);
        o_stts = o[1]; o_ctts = 0; o_stsc = o[2]; o_stsz = o[3]; o_stco = o[4]; o_stss = 0;
    }
    assert!(be32(&v, 8 + 12) == 1 && be32(&v, 8 + 16) as usize == stsd - 16, "one sample description that fills stsd");
    // entry counts mutually consistent with the sample count N
    assert!(be32(&v, o_stts + 12) as usize == N, "stts: one run per (distinct) duration");
    let mut k = 0;
    while k < N {
        assert!(be32(&v, o_stts + 16 + 8 * k) == 1 && be32(&v, o_stts + 20 + 8 * k) == durs[k], "stts run = (1, duration)");
        assert!(be32(&v, o_stsz + 20 + 4 * k) == sizes[k], "stsz entry = sample size");
        assert!(be32(&v, o_stco + 16 + 4 * k) == offs[k], "stco entry = chunk offset");
        assert!(be32(&v, o_stss + 16 + 4 * k) == k as u32 + 1, "stss entry = key sample number");
        if has_b {
            assert!(be32(&v, o_ctts + 16 + 8 * k) == 1 && be32(&v, o_ctts + 20 + 8 * k) as i32 == cts[k], "ctts run = (1, offset)");
        }
        k += 1;
    }
    assert!(be32(&v, o_stsz + 16) as usize == N, "stsz count = samples");
    assert!(be32(&v, o_stco + 12) as usize == N, "stco count = chunks");
    if N > 0 {
        assert!(be32(&v, o_stsc + 12) == 1 && be32(&v, o_stsc + 16) == 1 && be32(&v, o_stsc + 20) == 1, "stsc: one run, first chunk 1, one sample per chunk");
        assert!(be32(&v, o_stss + 12) as usize == N, "stss count = key frames");
    } else {
        assert!(be32(&v, o_stsc + 12) == 0, "stsc empty without chunks");
    }
    if has_b && N > 0 {
        assert!(be32(&v, o_ctts + 12) as usize == N, "ctts: one run per (distinct) offset");
    }
    core::mem::forget(t);
}
//@ prop=C02 tier=thorough cost=120 fns="muxer::mp4::build_stbl_box,build_stsd_box,build_vp09_box,build_stts_box,build_stsc_box,build_stsz_box,build_stco_box,build_stss_box" bound="video stbl, 2 samples (all key), symbolic sizes>0 / chunk offsets, durations 1000,2000, no reordering" unwind=40 stubs="fmt::format" timeout=900 mem=18
h!(c02_stbl_video_2, 40, { stbl_video_body::<2, 262>(false) });
//@ prop=C02,C09 tier_C09=thorough tier=quick cost=120 fns="muxer::mp4::build_stbl_box,build_ctts_box" bound="video stbl, 2 samples with composition offsets 10,20 (ctts present)" unwind=40 stubs="fmt::format" timeout=900 mem=18
h!(c02_stbl_video_2_ctts, 40, { stbl_video_body::<2, 294>(true) });
//@ prop=C02 tier=thorough cost=60 fns="muxer::mp4::build_stbl_box" bound="video stbl, 0 samples" unwind=40 stubs="fmt::format" mem=16
h!(c02_stbl_video_0, 40, { stbl_video_body::<0, 194>(false) });
//@ prop=C02 tier=thorough cost=100 fns="muxer::mp4::build_stbl_box" bound="video stbl, 1 sample" unwind=40 stubs="fmt::format" mem=16
h!(c02_stbl_video_1, 40, { stbl_video_body::<1, 242>(false) });
//@ prop=C02 tier=thorough cost=200 fns="muxer::mp4::build_stbl_box" bound="video stbl, 3 samples with ctts" unwind=40 stubs="fmt::format" timeout=1500 mem=22
h!(c02_stbl_video_3_ctts, 40, { stbl_video_body::<3, 346>(true) });

fn stbl_audio_body<const N: usize, const MAX: usize>(codec: AudioCodec, entry: usize) {
    let sizes: [u32; N] = kani::any();
    let offs: [u32; N] = kani::any();
    let mut i = 0;
    while i < N {
        kani::assume(sizes[i] > 0);
        i += 1;
    }
    let durs: [u32; N] = core::array::from_fn(|i| 960 * (i as u32 + 1));
    let t = mp4h::mk_tables(vec_u32(durs), vec_u32(sizes), Vec::new(), vec_u32(offs), 1, vec_i32([0; N]), false);
    let a = Mp4AudioTrack { sample_rate: 48000, channels: 2, codec };
    let out = mp4h::build_audio_stbl_box(&a, &t);
    let (v, n) = snapn::<MAX>(&out);
    assert!(box_is(&v, 0, n, b"stbl"));
    let o = expect_sized(&v, 8, n, [(b"stsd", 16 + entry), (b"stts", 16 + 8 * N), (b"stsc", if N > 0 { 28 } else { 16 }), (b"stsz", 20 + 4 * N), (b"stco", 16 + 4 * N)]);
    assert!(be32(&v, o[0] + 12) == 1 && be32(&v, o[0] + 16) as usize == entry, "one audio sample entry that fills stsd");
    assert!(be32(&v, o[3] + 16) as usize == N && be32(&v, o[4] + 12) as usize == N, "stsz / stco counts = samples");
    core::mem::forget(t);
}
//@ prop=C02 tier=quick cost=132 fns="muxer::mp4::build_audio_stbl_box,build_audio_stsd_box,build_opus_box" bound="Opus stbl, 1 sample" unwind=40 stubs="fmt::format" mem=16
h!(c02_stbl_audio_opus_1, 40, { stbl_audio_body::<1, 175>(AudioCodec::Opus, 55) });
//@ prop=C02 tier=thorough cost=90 fns="muxer::mp4::build_audio_stbl_box,build_mp4a_box,build_esds_box" bound="AAC stbl, 0 samples" unwind=40 stubs="fmt::format" mem=16
h!(c02_stbl_audio_aac_0, 40, { stbl_audio_body::<0, 159>(AudioCodec::Aac(muxide::api::AacProfile::Lc), 75) });

// ---- trak / mdia / minf hierarchy -----------------------------------------------------------
//@ prop=C02,C09 tier_C09=thorough tier=quick cost=200 fns="muxer::mp4::build_trak_box,build_mdia_box,build_minf_box,build_stbl_box,build_tkhd_box,build_mdhd_box_with_timescale_and_duration,build_hdlr_box,build_vmhd_box,build_dinf_box" bound="video trak with 1 sample (symbolic size/duration/offset), language None" unwind=40 stubs="fmt::format" timeout=900 mem=18
h!(c02_trak_video_1, 40, {
    let (sz, du, of): (u32, u32, u32) = (kani::any(), kani::any(), kani::any());
    kani::assume(sz > 0);
    let t = mp4h::mk_tables(vec_u32([du]), vec_u32([sz]), vec_u32([1]), vec_u32([of]), 1, vec_i32([0]), false);
    let out = mp4h::build_trak_box(&Mp4VideoTrack { width: 64, height: 48 }, &t, &vp9(), None);
    let v = snap::<495>(&out);
    assert!(box_is(&v, 0, 495, b"trak"));
    let tr = expect_sized(&v, 8, 495, [(b"tkhd", 96), (b"mdia", 391)]);
    let md = expect_sized(&v, tr[1] + 8, 495, [(b"mdhd", 32), (b"hdlr", 45), (b"minf", 306)]);
    let mi = expect_sized(&v, md[2] + 8, 495, [(b"vmhd", 20), (b"dinf", 36), (b"stbl", 242)]);
    let _ = expect_sized(&v, mi[2] + 8, 495, [(b"stsd", 118), (b"stts", 24), (b"stsc", 28), (b"stsz", 24), (b"stco", 20), (b"stss", 20)]);
    assert!(be32(&v, md[0] + 24) == du, "mdhd duration = sum of sample durations");
    core::mem::forget(t);
});
//@ prop=C02,C09 tier=thorough tier_C09=quick cost=200 fns="muxer::mp4::build_audio_trak_box,build_audio_mdia_box,build_audio_minf_box,build_audio_stbl_box,build_audio_tkhd_box,build_sound_hdlr_box,build_smhd_box" bound="Opus trak with 1 sample (symbolic size/duration/offset/composition offset/reordering flag)" unwind=40 stubs="fmt::format" timeout=900 mem=20
h!(c02_trak_audio_1, 40, {
    let (sz, du, of): (u32, u32, u32) = (kani::any(), kani::any(), kani::any());
    kani::assume(sz > 0);
    // composition offset and reordering flag symbolic: the audio stbl never carries a ctts (C09 relies on it)
    let (cts, hb): (i32, bool) = (kani::any(), kani::any());
    let t = mp4h::mk_tables(vec_u32([du]), vec_u32([sz]), Vec::new(), vec_u32([of]), 1, vec_i32([cts]), hb);
    let a = Mp4AudioTrack { sample_rate: 48000, channels: 2, codec: AudioCodec::Opus };
    let out = mp4h::build_audio_trak_box(&a, &t, None);
    let v = snap::<424>(&out);
    assert!(box_is(&v, 0, 424, b"trak"));
    let tr = expect_sized(&v, 8, 424, [(b"tkhd", 96), (b"mdia", 320)]);
    let md = expect_sized(&v, tr[1] + 8, 424, [(b"mdhd", 32), (b"hdlr", 45), (b"minf", 235)]);
    let mi = expect_sized(&v, md[2] + 8, 424, [(b"smhd", 16), (b"dinf", 36), (b"stbl", 175)]);
    let _ = expect_sized(&v, mi[2] + 8, 424, [(b"stsd", 71), (b"stts", 24), (b"stsc", 28), (b"stsz", 24), (b"stco", 20)]);
    core::mem::forget(t);
});

// ---- whole moov (real builder), smallest shapes ---------------------------------------------
//@ prop=C02 tier=thorough cost=400 fns="muxer::mp4::build_moov_box,build_trak_box,build_mvhd_payload" bound="moov, video-only, 1 sample, no metadata" unwind=40 stubs="fmt::format" timeout=1500 mem=18
h!(c02_moov_v1, 40, {
    let (sz, du, of): (u32, u32, u32) = (kani::any(), kani::any(), kani::any());
    kani::assume(sz > 0);
    let t = mp4h::mk_tables(vec_u32([du]), vec_u32([sz]), vec_u32([1]), vec_u32([of]), 1, vec_i32([0]), false);
    let out = mp4h::build_moov_box(&Mp4VideoTrack { width: 64, height: 48 }, &t, None, &vp9(), None);
    let v = snap::<611>(&out);
    assert!(box_is(&v, 0, 611, b"moov"), "moov spans the output");
    let m = expect_sized(&v, 8, 611, [(b"mvhd", 108), (b"trak", 495)]);
    let _ = expect_sized(&v, m[1] + 8, 611, [(b"tkhd", 96), (b"mdia", 391)]);
    core::mem::forget(t);
});
//@ prop=C02 tier=thorough cost=900 fns="muxer::mp4::build_moov_box,build_trak_box,build_audio_trak_box,build_udta_box" bound="moov, video + Opus audio, 1 sample each, metadata with a 2-byte title" unwind=40 stubs="fmt::format" timeout=3000 mem=30
h!(c02_moov_v1a1_meta, 40, {
    let (sz, du, of): (u32, u32, u32) = (kani::any(), kani::any(), kani::any());
    kani::assume(sz > 0);
    let vt = mp4h::mk_tables(vec_u32([du]), vec_u32([sz]), vec_u32([1]), vec_u32([of]), 1, vec_i32([0]), false);
    let at = mp4h::mk_tables(vec_u32([du]), vec_u32([sz]), Vec::new(), vec_u32([of]), 1, vec_i32([0]), false);
    let a = Mp4AudioTrack { sample_rate: 48000, channels: 2, codec: AudioCodec::Opus };
    let md = Metadata { title: Some(String::from("ab")), creation_time: None, language: None };
    let out = mp4h::build_moov_box(&Mp4VideoTrack { width: 64, height: 48 }, &vt, Some((&a, &at)), &vp9(), Some(&md));
    let v = snap::<{ 8 + 108 + 495 + 424 + 87 }>(&out);
    assert!(box_is(&v, 0, 1122, b"moov"));
    let m = expect_sized(&v, 8, 1122, [(b"mvhd", 108), (b"trak", 495), (b"trak", 424), (b"udta", 87)]);
    assert!(be32(&v, m[1] + 8 + 20) == 1 && be32(&v, m[2] + 8 + 20) == 2, "one track per configured stream, ids 1 and 2");
    core::mem::forget((vt, at, md));
});

// ---- fragmented init segment ------------------------------------------------------------------
//@ prop=C02 tier=thorough cost=300 fns="fragmented::FragmentedMuxer::init_segment,build_ftyp_fmp4,build_moov_fmp4,build_mvex,build_trak_fmp4,build_mdia_fmp4,build_minf_fmp4,build_stbl_fmp4,build_stsd_fmp4" bound="H.264 init segment, SPS 4 / PPS 2 symbolic bytes, any dims" unwind=40 timeout=3000 mem=34
h!(c02_init_segment_h264, 40, {
    let c = FragmentConfig { width: kani::any(), height: kani::any(), timescale: 90000, fragment_duration_ms: 2000, sps: kani::any::<[u8; 4]>().to_vec(), pps: kani::any::<[u8; 2]>().to_vec(), vps: None, av1_sequence_header: None, vp9_config: None };
    let mut m = muxide::fragmented::FragmentedMuxer::new(c);
    let out = m.init_segment();
    let v = snap::<636>(&out);
    let top = expect_sized(&v, 0, 636, [(b"ftyp", 28), (b"moov", 608)]);
    let mv = expect_sized(&v, top[1] + 8, 636, [(b"mvhd", 108), (b"mvex", 40), (b"trak", 452)]);
    let _ = expect_sized(&v, mv[1] + 8, mv[1] + 40, [(b"trex", 32)]);
    let tr = expect_sized(&v, mv[2] + 8, 636, [(b"tkhd", 92), (b"mdia", 352)]);
    let md = expect_sized(&v, tr[1] + 8, 636, [(b"mdhd", 32), (b"hdlr", 45), (b"minf", 267)]);
    let mi = expect_sized(&v, md[2] + 8, 636, [(b"vmhd", 20), (b"dinf", 36), (b"stbl", 203)]);
    let st = expect_sized(&v, mi[2] + 8, 636, [(b"stsd", 127), (b"stts", 16), (b"stsc", 16), (b"stsz", 20), (b"stco", 16)]);
    assert!(be32(&v, st[1] + 12) == 0 && be32(&v, st[2] + 12) == 0 && be32(&v, st[3] + 16) == 0 && be32(&v, st[4] + 12) == 0, "empty sample tables in the init segment");
    assert!(be32(&v, mv[1] + 8 + 12) == be32(&v, tr[0] + 20), "movie-extends entry refers to the track");
    core::mem::forget((m, out));
});
