//! C19 — header boxes and configuration records follow their specifications.
//! One harness per fixed-layout builder; output compared to a spec-derived
//! template with the symbolic inputs at the prescribed positions.
use crate::bx::*;
use crate::stubs::*;
use muxide::api::{AacProfile, AudioCodec};
use muxide::codec::av1::Av1Config;
use muxide::codec::h264::AvcConfig;
use muxide::codec::h265::HevcConfig;
use muxide::codec::vp9::Vp9Config;
use muxide::fragmented::verif as fh;
use muxide::fragmented::FragmentConfig;
use muxide::verif_hooks::mp4::verif as mp4h;
use muxide::verif_hooks::mp4::{Mp4AudioTrack, Mp4VideoTrack};

macro_rules! h {
    ($name:ident, $unw:expr, $body:block) => {
        #[kani::proof]
        #[kani::unwind($unw)]
        #[kani::stub(muxide::invariant_ppt::__assert_invariant_impl, crate::stubs::assert_invariant_stub)]
        pub fn $name() {
            $body;
            crate::vcover!(true, "harness end reached");
        }
    };
}

fn frag_cfg_h264(width: u32, height: u32, timescale: u32) -> FragmentConfig {
    FragmentConfig {
        width,
        height,
        timescale,
        fragment_duration_ms: 2000,
        sps: Vec::new(),
        pps: Vec::new(),
        vps: None,
        av1_sequence_header: None,
        vp9_config: None,
    }
}

/// ISO/IEC 14496-12 §8.2.2 MovieHeaderBox v0 (108 bytes).
fn check_mvhd(v: &[u8], timescale: u32, duration: u32) {
    assert!(v.len() == 108 && box_is(v, 0, 108, b"mvhd"));
    assert!(be32(v, 8) == 0, "version 0 / flags 0");
    assert!(be32(v, 20) == timescale, "timescale field");
    assert!(be32(v, 24) == duration, "duration field");
    assert!(be32(v, 28) == 0x0001_0000, "rate 1.0");
    assert!(be16(v, 32) == 0x0100, "volume 1.0");
    assert!(zeros(v, 34, 44), "reserved");
    assert!(identity_matrix(v, 44), "identity matrix");
    assert!(zeros(v, 80, 104), "pre_defined");
}

//@ prop=C19 tier=quick cost=41 fns="muxer::mp4::build_mvhd_payload,build_box" bound="all u32 durations" unwind=30
h!(c19_mvhd_progressive, 30, {
    let d: u32 = kani::any();
    let p = mp4h::build_mvhd_payload(d);
    let b = snap::<108>(&mp4h::build_box(b"mvhd", &p));
    check_mvhd(&b, 1000, d);
    let next = be32(&b, 104);
    assert!(next > 1, "next_track_ID must exceed the video track ID");
});

//@ prop=C19 tier=quick cost=28 fns="fragmented::build_mvhd_fmp4" bound="all u32 timescales" unwind=30
h!(c19_mvhd_fragmented, 30, {
    let ts: u32 = kani::any();
    let b = snap::<108>(&fh::build_mvhd_fmp4(ts));
    check_mvhd(&b, ts, 0);
    assert!(be32(&b, 104) > 1);
});

/// §8.3.2 TrackHeaderBox v0 (92 bytes).
fn check_tkhd(v: &[u8], track_id: u32, volume: u16, width: u32, height: u32) {
    assert!(v.len() == 92 && box_is(v, 0, 92, b"tkhd"));
    assert!(v[8] == 0, "version 0");
    assert!(be32(v, 20) == track_id && track_id != 0, "track_ID");
    assert!(be32(v, 24) == 0, "reserved");
    assert!(zeros(v, 32, 40), "reserved");
    assert!(be16(v, 40) == 0 && be16(v, 42) == 0, "layer / alternate_group");
    assert!(be16(v, 44) == volume, "volume");
    assert!(be16(v, 46) == 0, "reserved");
    assert!(identity_matrix(v, 48), "identity matrix");
    assert!((be32(v, 84) as u64) == (width as u64) << 16, "width 16.16");
    assert!((be32(v, 88) as u64) == (height as u64) << 16, "height 16.16");
}
fn tkhd_enabled(v: &[u8]) -> bool {
    // flags: track_enabled (0x1) must be set, track_in_movie (0x2) expected for a playable track
    (be32(v, 8) & 0x00ff_ffff) & 1 == 1
}

/// What is still right about the progressive tkhd while KF-C19-progressive-tkhd-layout is
/// listed: size field = length, type, version 0, track_ID at its v0 position.
fn check_tkhd_known_bad(v: &[u8], track_id: u32) {
    assert!(box_is(v, 0, v.len(), b"tkhd") && v[8] == 0);
    assert!(be32(v, 20) == track_id && track_id != 0, "track_ID");
}

//@ prop=C19 tier=quick cost=26 fns="muxer::mp4::build_tkhd_box,build_tkhd_box_with_id" bound="all widths/heights <= 65535" unwind=30
h!(c19_tkhd_video_progressive, 30, {
    let w: u32 = kani::any();
    let hh: u32 = kani::any();
    kani::assume(w <= 65535 && hh <= 65535);
    let b = snap::<96>(&mp4h::build_tkhd_box(&Mp4VideoTrack { width: w, height: hh }));
    if crate::known::KF_C19_PROGRESSIVE_TKHD_LAYOUT {
        check_tkhd_known_bad(&b, 1);
    } else {
        check_tkhd(&b, 1, 0, w, hh);
    }
    if !crate::known::KF_C19_PROGRESSIVE_TKHD_NOT_ENABLED {
        assert!(tkhd_enabled(&b), "track_enabled flag must be set");
    }
});
//@ prop=C19 tier=quick cost=10 fns="muxer::mp4::build_tkhd_box" bound="all widths/heights <= 65535" unwind=30 expect=fail kf=KF-C19-progressive-tkhd-layout
h!(c19_w_tkhd_video_progressive_layout, 30, {
    let w: u32 = kani::any();
    let hh: u32 = kani::any();
    kani::assume(w <= 65535 && hh <= 65535);
    let b = snap::<96>(&mp4h::build_tkhd_box(&Mp4VideoTrack { width: w, height: hh }));
    check_tkhd(&b, 1, 0, w, hh);
});
//@ prop=C19 tier=quick cost=16 fns="muxer::mp4::build_tkhd_box" bound="one 640x480 track" unwind=30 expect=fail kf=KF-C19-progressive-tkhd-not-enabled
h!(c19_w_tkhd_video_progressive_enabled, 30, {
    let b = snap::<96>(&mp4h::build_tkhd_box(&Mp4VideoTrack { width: 640, height: 480 }));
    assert!(tkhd_enabled(&b), "track_enabled flag must be set");
});

//@ prop=C19 tier=quick cost=26 fns="muxer::mp4::build_audio_tkhd_box" bound="no inputs" unwind=30
h!(c19_tkhd_audio_progressive, 30, {
    let b = snap::<96>(&mp4h::build_audio_tkhd_box());
    if crate::known::KF_C19_PROGRESSIVE_TKHD_LAYOUT {
        check_tkhd_known_bad(&b, 2);
    } else {
        check_tkhd(&b, 2, 0x0100, 0, 0);
    }
    if !crate::known::KF_C19_PROGRESSIVE_TKHD_NOT_ENABLED {
        assert!(tkhd_enabled(&b), "track_enabled flag must be set");
    }
});
//@ prop=C19 tier=quick cost=10 fns="muxer::mp4::build_audio_tkhd_box" bound="no inputs" unwind=30 expect=fail kf=KF-C19-progressive-tkhd-layout
h!(c19_w_tkhd_audio_progressive_layout, 30, {
    let b = snap::<96>(&mp4h::build_audio_tkhd_box());
    check_tkhd(&b, 2, 0x0100, 0, 0);
});
//@ prop=C19 tier=thorough cost=10 fns="muxer::mp4::build_audio_tkhd_box" bound="no inputs" unwind=30 expect=fail kf=KF-C19-progressive-tkhd-not-enabled
h!(c19_w_tkhd_audio_progressive_enabled, 30, {
    let b = snap::<96>(&mp4h::build_audio_tkhd_box());
    assert!(tkhd_enabled(&b), "track_enabled flag must be set");
});

//@ prop=C19 tier=quick cost=31 fns="fragmented::build_tkhd_fmp4" bound="all widths/heights <= 65535" unwind=30
h!(c19_tkhd_fragmented, 30, {
    let w: u32 = kani::any();
    let hh: u32 = kani::any();
    kani::assume(w <= 65535 && hh <= 65535);
    let cfg = frag_cfg_h264(w, hh, 90000);
    let b = snap::<92>(&fh::build_tkhd_fmp4(&cfg));
    check_tkhd(&b, 1, 0, w, hh);
    assert!(tkhd_enabled(&b));
    core::mem::forget(cfg);
});

//@ prop=C19 tier=quick cost=42 fns="muxer::mp4::build_mvhd_payload,build_tkhd_box,build_audio_tkhd_box" bound="no symbolic inputs (ids are constants)" unwind=30
h!(c19_track_ids_progressive, 30, {
    let p = snap::<100>(&mp4h::build_mvhd_payload(0));
    let next = be32(&p, 96);
    let v = snap::<96>(&mp4h::build_tkhd_box(&Mp4VideoTrack { width: 16, height: 16 }));
    let a = snap::<96>(&mp4h::build_audio_tkhd_box());
    let (vid, aid) = (be32(&v, 20), be32(&a, 20));
    assert!(vid != 0 && aid != 0 && vid != aid, "distinct non-zero track IDs");
    assert!(next > vid, "next_track_ID above the video track ID");
    if !crate::known::KF_C19_NEXT_TRACK_ID_WITH_AUDIO {
        assert!(next > aid, "next_track_ID above the audio track ID");
    }
});
//@ prop=C19 tier=quick cost=37 fns="muxer::mp4::build_mvhd_payload,build_audio_tkhd_box" bound="no symbolic inputs" unwind=30 expect=fail kf=KF-C19-next-track-id-with-audio
h!(c19_w_next_track_id_with_audio, 30, {
    let p = snap::<100>(&mp4h::build_mvhd_payload(0));
    let a = snap::<96>(&mp4h::build_audio_tkhd_box());
    assert!(be32(&p, 96) > be32(&a, 20), "next_track_ID above the audio track ID");
});

/// §8.4.2 MediaHeaderBox v0 (32 bytes).
fn check_mdhd(v: &[u8], timescale: u32, duration: u32, lang: u16) {
    assert!(v.len() == 32 && box_is(v, 0, 32, b"mdhd"));
    assert!(be32(v, 8) == 0);
    assert!(be32(v, 20) == timescale, "timescale");
    assert!(be32(v, 24) == duration, "duration");
    assert!(be16(v, 28) == lang, "language");
    assert!(be16(v, 28) & 0x8000 == 0, "pad bit");
    assert!(be16(v, 30) == 0, "pre_defined");
}
const UND: u16 = ((b'u' as u16 - 0x60) << 10) | ((b'n' as u16 - 0x60) << 5) | (b'd' as u16 - 0x60);

//@ prop=C19 tier=quick cost=20 fns="muxer::mp4::build_mdhd_box_with_timescale_and_duration,encode_language_code" bound="all u32 timescales, all durations < 2^32, language None" unwind=30
h!(c19_mdhd_progressive, 30, {
    let ts: u32 = kani::any();
    let d: u32 = kani::any();
    let b = snap::<32>(&mp4h::build_mdhd_box_with_timescale_and_duration(ts, d as u64, None));
    check_mdhd(&b, ts, d, UND);
});
//@ prop=C19 tier=quick cost=20 fns="fragmented::build_mdhd_fmp4,encode_language_code" bound="all u32 timescales, language None" unwind=30
h!(c19_mdhd_fragmented, 30, {
    let ts: u32 = kani::any();
    let b = snap::<32>(&fh::build_mdhd_fmp4(ts, None));
    check_mdhd(&b, ts, 0, UND);
});

/// §8.4.3 HandlerBox.
fn check_hdlr(v: &[u8], handler: &[u8; 4]) {
    assert!(v.len() >= 33 && box_is(v, 0, v.len(), b"hdlr"));
    assert!(be32(v, 8) == 0 && be32(v, 12) == 0, "version/flags, pre_defined");
    assert!(is_type(v, 16, handler), "handler_type");
    assert!(v[v.len() - 1] == 0, "name is null-terminated");
}
//@ prop=C19 tier=quick cost=28 fns="muxer::mp4::build_hdlr_box,build_sound_hdlr_box,build_meta_hdlr_box,fragmented::build_hdlr_video" bound="no inputs" unwind=40
h!(c19_hdlr_all, 40, {
    let a = snap::<45>(&mp4h::build_hdlr_box());
    check_hdlr(&a, b"vide");
    assert!(zeros(&a, 20, 32), "reserved");
    let b = snap::<45>(&mp4h::build_sound_hdlr_box());
    check_hdlr(&b, b"soun");
    assert!(zeros(&b, 20, 32), "reserved");
    let c = snap::<45>(&fh::build_hdlr_video());
    check_hdlr(&c, b"vide");
    assert!(zeros(&c, 20, 32), "reserved");
    let m = snap::<33>(&mp4h::build_meta_hdlr_box());
    check_hdlr(&m, b"mdir");
});

//@ prop=C19 tier=quick cost=15 fns="muxer::mp4::build_vmhd_box,build_smhd_box,fragmented::build_vmhd" bound="no inputs" unwind=30
h!(c19_vmhd_smhd, 30, {
    let f = snap::<20>(&fh::build_vmhd());
    assert!(f.len() == 20 && box_is(&f, 0, 20, b"vmhd") && be32(&f, 8) == 1 && zeros(&f, 12, 20));
    let s = snap::<16>(&mp4h::build_smhd_box());
    assert!(s.len() == 16 && box_is(&s, 0, 16, b"smhd") && be32(&s, 8) == 0 && zeros(&s, 12, 16));
    let p = snap::<20>(&mp4h::build_vmhd_box());
    assert!(p.len() == 20 && box_is(&p, 0, 20, b"vmhd") && zeros(&p, 12, 20));
    assert!(p[8] == 0, "version 0");
    if !crate::known::KF_C19_PROGRESSIVE_VMHD_FLAGS {
        assert!(be32(&p, 8) == 1, "vmhd flags must be 1 (ISO/IEC 14496-12 8.4.5.2)");
    }
});
//@ prop=C19 tier=quick cost=10 fns="muxer::mp4::build_vmhd_box" bound="no inputs" unwind=30 expect=fail kf=KF-C19-progressive-vmhd-flags
h!(c19_w_vmhd_flags, 30, {
    let p = snap::<20>(&mp4h::build_vmhd_box());
    assert!(be32(&p, 8) == 1, "vmhd flags must be 1 (ISO/IEC 14496-12 8.4.5.2)");
});

fn check_dinf(v: &[u8]) {
    assert!(v.len() == 36 && box_is(v, 0, 36, b"dinf"));
    assert!(box_is(v, 8, 28, b"dref") && be32(v, 16) == 0 && be32(v, 20) == 1, "dref v0, one entry");
    assert!(box_is(v, 24, 12, b"url ") && be32(v, 32) == 1, "self-contained url entry");
}
//@ prop=C19 tier=quick cost=21 fns="muxer::mp4::build_dinf_box,build_dref_box,build_url_box,fragmented::build_dinf" bound="no inputs" unwind=30
h!(c19_dinf, 30, {
    check_dinf(&snap::<36>(&mp4h::build_dinf_box()));
    check_dinf(&snap::<36>(&fh::build_dinf()));
});

//@ prop=C19 tier=quick cost=10 fns="muxer::mp4::build_ftyp_box,fragmented::build_ftyp_fmp4" bound="no inputs" unwind=30
h!(c19_ftyp, 30, {
    let a = snap::<24>(&mp4h::build_ftyp_box());
    assert!(box_is(&a, 0, a.len(), b"ftyp") && a.len() >= 16 && (a.len() - 16) % 4 == 0);
    assert!(is_type(&a, 8, b"isom"));
    let b = snap::<28>(&fh::build_ftyp_fmp4());
    assert!(box_is(&b, 0, b.len(), b"ftyp") && b.len() >= 16 && (b.len() - 16) % 4 == 0);
    assert!(is_type(&b, 8, b"iso5"));
});

/// §12.1.3 VisualSampleEntry: 8 (box) + 78 bytes before the codec configuration box.
fn check_visual_entry(v: &[u8], fourcc: &[u8; 4], w: u32, hh: u32, cfg: &[u8; 4]) {
    assert!(v.len() >= 94 && box_is(v, 0, v.len(), fourcc));
    assert!(zeros(v, 8, 14), "reserved");
    assert!(be16(v, 14) == 1, "data_reference_index");
    assert!(zeros(v, 16, 32), "pre_defined / reserved");
    assert!(be16(v, 32) as u32 == w && be16(v, 34) as u32 == hh, "width / height");
    assert!(be32(v, 36) == 0x0048_0000 && be32(v, 40) == 0x0048_0000, "72 dpi");
    assert!(be32(v, 44) == 0, "reserved");
    assert!(be16(v, 48) == 1, "frame_count");
    assert!(zeros(v, 50, 82), "compressorname");
    assert!(be16(v, 82) == 0x0018 && be16(v, 84) == 0xffff, "depth / pre_defined");
    assert!(box_is(v, 86, v.len() - 86, cfg), "configuration box fills the rest of the entry");
}

fn vp9cfg() -> Vp9Config {
    Vp9Config {
        width: kani::any(),
        height: kani::any(),
        profile: kani::any(),
        bit_depth: kani::any(),
        color_space: kani::any(),
        transfer_function: kani::any(),
        matrix_coefficients: kani::any(),
        level: kani::any(),
        full_range_flag: kani::any(),
    }
}

macro_rules! visual_prog {
    ($name:ident, $f:path, $fourcc:expr, $cfgcc:expr, $n:expr, $cfg:expr) => {
        h!($name, 40, {
            let w: u32 = kani::any();
            let hh: u32 = kani::any();
            kani::assume(w <= 65535 && hh <= 65535);
            let cfg = $cfg;
            let b = snap::<$n>(&$f(&Mp4VideoTrack { width: w, height: hh }, &cfg));
            check_visual_entry(&b, $fourcc, w, hh, $cfgcc);
            core::mem::forget(cfg);
        });
    };
}
//@ prop=C19,C07 tier=quick cost=49 fns="muxer::mp4::build_avc1_box,build_avcc_box" bound="all dims <= 65535; SPS 4 / PPS 2 symbolic bytes" unwind=40
visual_prog!(c19_avc1_progressive, mp4h::build_avc1_box, b"avc1", b"avcC", 111, AvcConfig::new(kani::any::<[u8; 4]>().to_vec(), kani::any::<[u8; 2]>().to_vec()));
//@ prop=C19,C07 tier=quick cost=68 fns="muxer::mp4::build_hvc1_box,build_hvcc_box" bound="all dims <= 65535; VPS 2 / SPS 4 / PPS 2 symbolic bytes" unwind=40
visual_prog!(c19_hvc1_progressive, mp4h::build_hvc1_box, b"hvc1", b"hvcC", 140, HevcConfig::new(kani::any::<[u8; 2]>().to_vec(), kani::any::<[u8; 4]>().to_vec(), kani::any::<[u8; 2]>().to_vec()));
//@ prop=C19,C07 tier=quick cost=30 fns="muxer::mp4::build_vp09_box,build_vpcc_box" bound="all dims <= 65535; all Vp9Config field values" unwind=40
visual_prog!(c19_vp09_progressive, mp4h::build_vp09_box, b"vp09", b"vpcC", 102, vp9cfg());

fn av1cfg(obu: Vec<u8>) -> Av1Config {
    Av1Config {
        sequence_header: obu,
        seq_profile: kani::any(),
        seq_level_idx: kani::any(),
        seq_tier: kani::any(),
        high_bitdepth: kani::any(),
        twelve_bit: kani::any(),
        monochrome: kani::any(),
        chroma_subsampling_x: kani::any(),
        chroma_subsampling_y: kani::any(),
        chroma_sample_position: kani::any(),
    }
}
//@ prop=C19,C07 tier=quick cost=30 fns="muxer::mp4::build_av01_box,build_av1c_box" bound="all dims <= 65535; all Av1Config field values; 3-byte OBU" unwind=40
visual_prog!(c19_av01_progressive, mp4h::build_av01_box, b"av01", b"av1C", 101, av1cfg(kani::any::<[u8; 3]>().to_vec()));

macro_rules! visual_frag {
    ($name:ident, $f:path, $fourcc:expr, $cfgcc:expr, $n:expr, |$c:ident| $set:block) => {
        h!($name, 40, {
            let w: u32 = kani::any();
            let hh: u32 = kani::any();
            kani::assume(w <= 65535 && hh <= 65535);
            let mut $c = frag_cfg_h264(w, hh, 90000);
            $set;
            let b = snap::<$n>(&$f(&$c));
            check_visual_entry(&b, $fourcc, w, hh, $cfgcc);
            core::mem::forget($c);
        });
    };
}
//@ prop=C19,C07 tier=quick cost=30 fns="fragmented::build_avc1_fmp4,build_avcc_fmp4" bound="all dims <= 65535; SPS 4 / PPS 2 symbolic bytes" unwind=40
visual_frag!(c19_avc1_fragmented, fh::build_avc1_fmp4, b"avc1", b"avcC", 111, |c| {
    c.sps = kani::any::<[u8; 4]>().to_vec();
    c.pps = kani::any::<[u8; 2]>().to_vec();
});
//@ prop=C19,C07 tier=quick cost=43 fns="fragmented::build_hvc1_fmp4,build_hvcc_fmp4" bound="all dims <= 65535; VPS 2 / SPS 4 / PPS 2 symbolic bytes" unwind=40
visual_frag!(c19_hvc1_fragmented, fh::build_hvc1_fmp4, b"hvc1", b"hvcC", 140, |c| {
    c.vps = Some(kani::any::<[u8; 2]>().to_vec());
    c.sps = kani::any::<[u8; 4]>().to_vec();
    c.pps = kani::any::<[u8; 2]>().to_vec();
});
//@ prop=C19,C07 tier=quick cost=30 fns="fragmented::build_av01_fmp4,build_av1c_fmp4" bound="all dims <= 65535; 3-byte OBU" unwind=40
visual_frag!(c19_av01_fragmented, fh::build_av01_fmp4, b"av01", b"av1C", 100, |c| {
    c.av1_sequence_header = Some(kani::any::<[u8; 3]>().to_vec());
});
//@ prop=C19,C07 tier=quick cost=30 fns="fragmented::build_vp09_fmp4,build_vpcc_fmp4" bound="all dims <= 65535; all Vp9Config values" unwind=40
visual_frag!(c19_vp09_fragmented, fh::build_vp09_fmp4, b"vp09", b"vpcC", 102, |c| {
    c.vp9_config = Some(vp9cfg());
});

// ---- decoder configuration records -----------------------------------------
/// ISO/IEC 14496-15 §5.3.3.1 AVCDecoderConfigurationRecord with one SPS / one PPS.
fn check_avcc<const S: usize, const P: usize>(v: &[u8], sps: &[u8; S], pps: &[u8; P]) {
    let total = 8 + 6 + 2 + S + 1 + 2 + P;
    assert!(v.len() == total && box_is(v, 0, total, b"avcC"));
    assert!(v[8] == 1, "configurationVersion");
    if S >= 4 {
        assert!(v[9] == sps[1] && v[10] == sps[2] && v[11] == sps[3], "profile/compat/level copied from the SPS");
    }
    assert!(v[12] == 0xff, "reserved 111111 + lengthSizeMinusOne=3");
    assert!(v[13] == 0xe1, "reserved 111 + one SPS");
    assert!(be16(v, 14) as usize == S, "SPS length");
    let mut i = 0;
    while i < S {
        assert!(v[16 + i] == sps[i], "SPS bytes");
        i += 1;
    }
    assert!(v[16 + S] == 1, "one PPS");
    assert!(be16(v, 17 + S) as usize == P, "PPS length");
    let mut j = 0;
    while j < P {
        assert!(v[19 + S + j] == pps[j], "PPS bytes");
        j += 1;
    }
}
macro_rules! avcc_h {
    ($name:ident, $s:expr, $p:expr, frag) => {
        h!($name, 12, {
            let sps: [u8; $s] = kani::any();
            let pps: [u8; $p] = kani::any();
            let mut c = frag_cfg_h264(1, 1, 1);
            c.sps = sps.to_vec();
            c.pps = pps.to_vec();
            let b = snap::<{ 19 + $s + $p }>(&fh::build_avcc_fmp4(&c));
            check_avcc::<$s, $p>(&b, &sps, &pps);
            core::mem::forget(c);
        });
    };
    ($name:ident, $s:expr, $p:expr, prog) => {
        h!($name, 12, {
            let sps: [u8; $s] = kani::any();
            let pps: [u8; $p] = kani::any();
            let c = AvcConfig::new(sps.to_vec(), pps.to_vec());
            let b = snap::<{ 19 + $s + $p }>(&mp4h::build_avcc_box(&c));
            check_avcc::<$s, $p>(&b, &sps, &pps);
            core::mem::forget(c);
        });
    };
}
//@ prop=C19,C07 tier=quick cost=20 fns="muxer::mp4::build_avcc_box" bound="SPS 5 / PPS 3 symbolic bytes" unwind=12
avcc_h!(c19_avcc_prog_5_3, 5, 3, prog);
//@ prop=C19,C07 tier=thorough cost=20 fns="muxer::mp4::build_avcc_box" bound="SPS 4 / PPS 1 symbolic bytes" unwind=12
avcc_h!(c19_avcc_prog_4_1, 4, 1, prog);
//@ prop=C19,C07 tier=quick cost=20 fns="fragmented::build_avcc_fmp4" bound="SPS 5 / PPS 3 symbolic bytes" unwind=12
avcc_h!(c19_avcc_frag_5_3, 5, 3, frag);
//@ prop=C19,C07 tier=thorough cost=20 fns="fragmented::build_avcc_fmp4" bound="SPS 4 / PPS 1 symbolic bytes" unwind=12
avcc_h!(c19_avcc_frag_4_1, 4, 1, frag);

/// ISO/IEC 14496-15 §8.3.3.1 HEVCDecoderConfigurationRecord: fixed 23-byte head,
/// reserved bit patterns, then `arrays` NAL arrays of one NAL each.
fn check_hvcc_head(v: &[u8], arrays: u8) {
    assert!(box_is(v, 0, v.len(), b"hvcC") && v.len() >= 8 + 23);
    assert!(v[8] == 1, "configurationVersion");
    assert!(v[21] & 0xf0 == 0xf0, "reserved 1111 before min_spatial_segmentation_idc");
    assert!(v[23] & 0xfc == 0xfc, "reserved 111111 before parallelismType");
    assert!(v[24] & 0xfc == 0xfc, "reserved 111111 before chromaFormat");
    assert!(v[25] & 0xf8 == 0xf8, "reserved 11111 before bitDepthLumaMinus8");
    assert!(v[26] & 0xf8 == 0xf8, "reserved 11111 before bitDepthChromaMinus8");
    assert!(v[29] & 0x03 == 3, "lengthSizeMinusOne = 3");
    assert!(v[30] == arrays, "numOfArrays");
}
fn check_hvcc_array<const N: usize>(v: &[u8], o: usize, nal_type: u8, nal: &[u8; N]) -> usize {
    assert!(v[o] & 0x3f == nal_type, "NAL_unit_type");
    assert!(v[o] & 0x40 == 0, "reserved bit 0");
    assert!(be16(v, o + 1) == 1, "numNalus");
    assert!(be16(v, o + 3) as usize == N, "nalUnitLength");
    let mut i = 0;
    while i < N {
        assert!(v[o + 5 + i] == nal[i], "NAL bytes");
        i += 1;
    }
    o + 5 + N
}
//@ prop=C19,C07 tier=quick cost=56 fns="muxer::mp4::build_hvcc_box,HevcConfig accessors" bound="VPS 2 / SPS 5 / PPS 3 symbolic bytes" unwind=12
h!(c19_hvcc_progressive, 12, {
    let vps: [u8; 2] = kani::any();
    let sps: [u8; 5] = kani::any();
    let pps: [u8; 3] = kani::any();
    let c = HevcConfig::new(vps.to_vec(), sps.to_vec(), pps.to_vec());
    let b = snap::<56>(&mp4h::build_hvcc_box(&c));
    check_hvcc_head(&b, 3);
    let o = check_hvcc_array::<2>(&b, 31, 32, &vps);
    let o = check_hvcc_array::<5>(&b, o, 33, &sps);
    let o = check_hvcc_array::<3>(&b, o, 34, &pps);
    assert!(o == b.len(), "record ends with the last array");
    core::mem::forget(c);
});
//@ prop=C19,C07 tier=quick cost=30 fns="fragmented::build_hvcc_fmp4" bound="VPS 2 / SPS 5 / PPS 3 symbolic bytes" unwind=12
h!(c19_hvcc_fragmented, 12, {
    let vps: [u8; 2] = kani::any();
    let sps: [u8; 5] = kani::any();
    let pps: [u8; 3] = kani::any();
    let mut c = frag_cfg_h264(1, 1, 1);
    c.vps = Some(vps.to_vec());
    c.sps = sps.to_vec();
    c.pps = pps.to_vec();
    let b = snap::<56>(&fh::build_hvcc_fmp4(&c));
    if !crate::known::KF_C19_FRAGMENTED_HVCC_RESERVED_BITS {
        check_hvcc_head(&b, 3);
    } else {
        assert!(box_is(&b, 0, b.len(), b"hvcC") && b[8] == 1 && b[29] & 3 == 3 && b[30] == 3);
    }
    let o = check_hvcc_array::<2>(&b, 31, 32, &vps);
    let o = check_hvcc_array::<5>(&b, o, 33, &sps);
    let o = check_hvcc_array::<3>(&b, o, 34, &pps);
    assert!(o == b.len());
    core::mem::forget(c);
});
//@ prop=C19 tier=quick cost=20 fns="fragmented::build_hvcc_fmp4" bound="1-byte parameter sets" unwind=12 expect=fail kf=KF-C19-fragmented-hvcc-reserved-bits
h!(c19_w_hvcc_fragmented_reserved, 12, {
    let mut c = frag_cfg_h264(1, 1, 1);
    c.vps = Some(kani::any::<[u8; 1]>().to_vec());
    c.sps = kani::any::<[u8; 1]>().to_vec();
    c.pps = kani::any::<[u8; 1]>().to_vec();
    let b = snap::<49>(&fh::build_hvcc_fmp4(&c));
    check_hvcc_head(&b, 3);
    core::mem::forget(c);
});

/// AV1-ISOBMFF §2.3.3 AV1CodecConfigurationRecord.
fn check_av1c_head(v: &[u8], obu_len: usize) {
    assert!(v.len() == 8 + 4 + obu_len && box_is(v, 0, v.len(), b"av1C"));
    assert!(v[8] == 0x81, "marker 1 + version 1");
    assert!(v[11] & 0xe0 == 0, "reserved 000");
}
//@ prop=C19,C07 tier=quick cost=15 fns="muxer::mp4::build_av1c_box" bound="all Av1Config values with profile<=7, level<=31, tier<=1, csp<=3; 3-byte OBU" unwind=8
h!(c19_av1c_progressive, 8, {
    let obu: [u8; 3] = kani::any();
    let c = av1cfg(obu.to_vec());
    kani::assume(c.seq_profile <= 7 && c.seq_level_idx <= 31 && c.seq_tier <= 1 && c.chroma_sample_position <= 3);
    let b = snap::<15>(&mp4h::build_av1c_box(&c));
    check_av1c_head(&b, 3);
    assert!(b[9] >> 5 == c.seq_profile && b[9] & 0x1f == c.seq_level_idx);
    assert!(b[10] >> 7 == c.seq_tier);
    assert!((b[10] >> 6) & 1 == c.high_bitdepth as u8 && (b[10] >> 5) & 1 == c.twelve_bit as u8);
    assert!((b[10] >> 4) & 1 == c.monochrome as u8);
    assert!((b[10] >> 3) & 1 == c.chroma_subsampling_x as u8 && (b[10] >> 2) & 1 == c.chroma_subsampling_y as u8);
    assert!(b[10] & 3 == c.chroma_sample_position);
    assert!(b[12] == obu[0] && b[13] == obu[1] && b[14] == obu[2], "configOBUs");
    core::mem::forget(c);
});
//@ prop=C19,C07 tier=quick cost=9 fns="fragmented::build_av1c_fmp4" bound="3-byte OBU" unwind=8
h!(c19_av1c_fragmented, 8, {
    let obu: [u8; 3] = kani::any();
    let mut c = frag_cfg_h264(1, 1, 1);
    c.av1_sequence_header = Some(obu.to_vec());
    let b = snap::<14>(&fh::build_av1c_fmp4(&c));
    assert!(box_is(&b, 0, b.len(), b"av1C"));
    if !crate::known::KF_C19_FRAGMENTED_AV1C_LAYOUT {
        check_av1c_head(&b, 3);
        assert!(b[12] == obu[0] && b[13] == obu[1] && b[14] == obu[2], "configOBUs");
    }
    core::mem::forget(c);
});
//@ prop=C19 tier=quick cost=5 fns="fragmented::build_av1c_fmp4" bound="3-byte OBU" unwind=8 expect=fail kf=KF-C19-fragmented-av1c-layout
h!(c19_w_av1c_fragmented_layout, 8, {
    let obu: [u8; 3] = kani::any();
    let mut c = frag_cfg_h264(1, 1, 1);
    c.av1_sequence_header = Some(obu.to_vec());
    let b = snap::<14>(&fh::build_av1c_fmp4(&c));
    check_av1c_head(&b, 3);
    core::mem::forget(c);
});

/// VP9-ISOBMFF §2.2 VPCodecConfigurationBox: FullBox(version 1) + 8-byte record.
fn check_vpcc(v: &[u8], c: &Vp9Config) {
    assert!(v.len() == 8 + 4 + 8 && box_is(v, 0, 20, b"vpcC"), "FullBox header + 8-byte record");
    assert!(be32(v, 8) == 0x0100_0000, "version 1, flags 0");
    assert!(v[12] == c.profile && v[13] == c.level);
    assert!(v[14] >> 4 == c.bit_depth && v[14] & 1 == c.full_range_flag);
    assert!(be16(v, 18) == 0, "codecIntializationDataSize");
}
//@ prop=C19,C07 tier=quick cost=8 fns="muxer::mp4::build_vpcc_box,fragmented::build_vpcc_fmp4" bound="all Vp9Config values" unwind=8
h!(c19_vpcc_both, 8, {
    let c = vp9cfg();
    let b = snap::<16>(&mp4h::build_vpcc_box(&c));
    assert!(box_is(&b, 0, b.len(), b"vpcC"));
    let mut fc = frag_cfg_h264(1, 1, 1);
    fc.vp9_config = Some(c.clone());
    let f = snap::<16>(&fh::build_vpcc_fmp4(&fc));
    assert!(box_is(&f, 0, f.len(), b"vpcC"));
    if !crate::known::KF_C19_VPCC_LAYOUT {
        check_vpcc(&b, &c);
        check_vpcc(&f, &c);
    }
    core::mem::forget(fc);
});
//@ prop=C19 tier=quick cost=5 fns="muxer::mp4::build_vpcc_box" bound="all Vp9Config values" unwind=8 expect=fail kf=KF-C19-vpcc-layout
h!(c19_w_vpcc_layout, 8, {
    let c = vp9cfg();
    let b = snap::<16>(&mp4h::build_vpcc_box(&c));
    check_vpcc(&b, &c);
});

// ---- audio -------------------------------------------------------------------
fn any_aac() -> AudioCodec {
    match kani::any::<u8>() % 6 {
        0 => AudioCodec::Aac(AacProfile::Lc),
        1 => AudioCodec::Aac(AacProfile::Main),
        2 => AudioCodec::Aac(AacProfile::Ssr),
        3 => AudioCodec::Aac(AacProfile::Ltp),
        4 => AudioCodec::Aac(AacProfile::He),
        _ => AudioCodec::Aac(AacProfile::Hev2),
    }
}
/// §12.2.3 AudioSampleEntry: 8 + 28 bytes before the codec box.
fn check_audio_entry(v: &[u8], fourcc: &[u8; 4], channels: u16, rate: u32, cfg: &[u8; 4]) {
    assert!(v.len() >= 44 && box_is(v, 0, v.len(), fourcc));
    assert!(zeros(v, 8, 14) && be16(v, 14) == 1, "reserved, data_reference_index");
    assert!(zeros(v, 16, 24), "reserved");
    assert!(be16(v, 24) == channels, "channelcount");
    assert!(be16(v, 26) == 16, "samplesize");
    assert!(be32(v, 28) == 0, "pre_defined, reserved");
    assert!((be32(v, 32) as u64) == (rate as u64) << 16, "samplerate 16.16");
    assert!(box_is(v, 36, v.len() - 36, cfg), "codec box fills the rest");
}
//@ prop=C19,C07 tier=quick cost=84 fns="muxer::mp4::build_mp4a_box,build_esds_box,build_audio_specific_config" bound="all u16 channel counts, all sample rates < 65536, 6 AAC profiles" unwind=12
h!(c19_mp4a, 12, {
    let rate: u32 = kani::any();
    kani::assume(rate < 65536);
    let t = Mp4AudioTrack { sample_rate: rate, channels: kani::any(), codec: any_aac() };
    let b = snap::<75>(&mp4h::build_mp4a_box(&t));
    check_audio_entry(&b, b"mp4a", t.channels, rate, b"esds");
    // ISO/IEC 14496-1 ES_Descriptor / DecoderConfigDescriptor / DecoderSpecificInfo / SLConfig
    let e = 36;
    assert!(b.len() == e + 8 + 4 + 2 + 3 + 2 + 13 + 2 + 2 + 3);
    assert!(be32(&b, e + 8) == 0, "esds version/flags");
    assert!(b[e + 12] == 0x03 && b[e + 13] as usize == b.len() - (e + 14), "ES_DescrTag + length");
    assert!(b[e + 17] == 0x04 && b[e + 18] == 13 + 2 + 2, "DecoderConfigDescrTag + length");
    assert!(b[e + 19] == 0x40 && b[e + 20] == 0x15, "objectTypeIndication AAC, streamType audio");
    assert!(b[e + 32] == 0x05 && b[e + 33] == 2, "DecSpecificInfoTag + length");
    assert!(b[e + 36] == 0x06 && b[e + 37] == 1 && b[e + 38] == 2, "SLConfigDescriptor predefined 2");
});
fn opus_entry_body(ch: u16) {
    let t = Mp4AudioTrack { sample_rate: kani::any(), channels: ch, codec: AudioCodec::Opus };
    let b = snap::<55>(&mp4h::build_opus_box(&t));
    check_audio_entry(&b, b"Opus", ch, 48000, b"dOps");
    let d = 36;
    assert!(b[d + 8] == 0, "dOps Version 0");
    assert!(b[d + 9] as u16 == ch, "OutputChannelCount");
    assert!(be32(&b, d + 12) == 48000, "InputSampleRate");
    assert!(b[d + 18] == 0, "ChannelMappingFamily 0 for mono/stereo");
}
//@ prop=C19,C07 tier=quick cost=30 fns="muxer::mp4::build_opus_box,build_dops_box,OpusConfig::with_channels" bound="stereo, any configured sample rate" unwind=12
h!(c19_opus_entry_stereo, 12, {
    opus_entry_body(2);
});
//@ prop=C19,C07 tier=thorough cost=30 fns="muxer::mp4::build_opus_box,build_dops_box,OpusConfig::with_channels" bound="mono, any configured sample rate" unwind=12
h!(c19_opus_entry_mono, 12, {
    opus_entry_body(1);
});

// ---- fragment boxes ----------------------------------------------------------
//@ prop=C19 tier=quick cost=20 fns="fragmented::build_mvex,build_mfhd,build_tfhd,build_tfdt" bound="all u32 sequence numbers, all u64 base times" unwind=8
h!(c19_fragment_headers, 8, {
    let m = snap::<40>(&fh::build_mvex());
    assert!(m.len() == 40 && box_is(&m, 0, 40, b"mvex") && box_is(&m, 8, 32, b"trex"));
    assert!(be32(&m, 16) == 0 && be32(&m, 20) == 1 && be32(&m, 24) == 1, "trex v0, track 1, sample description 1");
    let seq: u32 = kani::any();
    let f = snap::<16>(&fh::build_mfhd(seq));
    assert!(f.len() == 16 && box_is(&f, 0, 16, b"mfhd") && be32(&f, 8) == 0 && be32(&f, 12) == seq);
    let t = snap::<16>(&fh::build_tfhd());
    assert!(t.len() == 16 && box_is(&t, 0, 16, b"tfhd") && be32(&t, 8) == 0x0002_0000 && be32(&t, 12) == 1);
    let base: u64 = kani::any();
    let d = snap::<20>(&fh::build_tfdt(base));
    assert!(d.len() == 20 && box_is(&d, 0, 20, b"tfdt") && be32(&d, 8) == 0x0100_0000 && be64(&d, 12) == base);
});
