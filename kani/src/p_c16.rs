//! C16 — no numeric field is silently truncated. One harness per narrowing site:
//! the wide quantity is symbolic over its full range and the written field must hold
//! the mathematical value (or the operation must report an error).
use crate::bx::*;
use crate::stubs::*;
use muxide::api::{AacProfile, AudioCodec, MuxerBuilder, VideoCodec};
use muxide::codec::h264::AvcConfig;
use muxide::fragmented::verif as fh;
use muxide::fragmented::FragmentConfig;
use muxide::verif_hooks::mp4::verif as mp4h;
use muxide::verif_hooks::mp4::{Mp4AudioTrack, Mp4VideoTrack};

macro_rules! h {
    ($name:ident, $unw:expr, $body:block) => {
        #[kani::proof]
        #[kani::unwind($unw)]
        #[kani::stub(muxide::invariant_ppt::__assert_invariant_impl, crate::stubs::assert_invariant_stub)]
        pub fn $name() {
            $body;
        }
    };
}
fn data(n: usize) -> Vec<u8> {
    let mut v = Vec::with_capacity(n);
    let mut i = 0;
    while i < n {
        v.push(0x11);
        i += 1;
    }
    v
}
fn frag_cfg(width: u32, height: u32) -> FragmentConfig {
    FragmentConfig { width, height, timescale: 90000, fragment_duration_ms: 2000, sps: Vec::new(), pps: Vec::new(), vps: None, av1_sequence_header: None, vp9_config: None }
}

// ---- mdhd duration (u64 -> u32) ---------------------------------------------
//@ prop=C16 tier=quick cost=12 fns="muxer::mp4::build_mdhd_box_with_timescale_and_duration" bound="all u64 media durations" unwind=4
h!(c16_mdhd_duration, 4, {
    let d: u64 = kani::any();
    if crate::known::KF_C16_MDHD_DURATION_WRAPS {
        kani::assume(d <= u32::MAX as u64);
    }
    let b = snap::<32>(&mp4h::build_mdhd_box_with_timescale_and_duration(90000, d, None));
    assert!(be32(&b, 24) as u64 == d, "mdhd duration field holds the media duration");
    crate::vcover!(d > 1_000_000, "long recording");
});
//@ prop=C16 tier=quick cost=12 fns="muxer::mp4::build_mdhd_box_with_timescale_and_duration" bound="all u64 media durations" unwind=4 expect=fail kf=KF-C16-mdhd-duration-wraps
h!(c16_w_mdhd_duration, 4, {
    let d: u64 = kani::any();
    let b = snap::<32>(&mp4h::build_mdhd_box_with_timescale_and_duration(90000, d, None));
    assert!(be32(&b, 24) as u64 == d, "mdhd duration field holds the media duration");
});

// ---- composition offset (i64 -> i32) in from_samples ---------------------------
//@ prop=C16 tier=quick cost=7 fns="muxer::mp4::SampleTables::from_samples" bound="1 sample, all pts/dts < 2^63" unwind=4
h!(c16_cts_offset, 4, {
    let (pts, dts): (u64, u64) = (kani::any(), kani::any());
    kani::assume(pts < (1 << 63) && dts < (1 << 63));
    let diff = pts as i128 - dts as i128;
    if crate::known::KF_C16_CTS_OFFSET_WRAPS {
        kani::assume(diff >= i32::MIN as i128 && diff <= i32::MAX as i128);
    }
    let t = mp4h::tables_from_samples([mp4h::mk_sample(pts, dts, data(1), true, None)], Vec::new(), 1, None);
    assert!(mp4h::t_cts_offsets(&t)[0] as i128 == diff, "composition offset = pts - dts");
    crate::vcover!(diff < 0, "negative offset");
    core::mem::forget(t);
});
//@ prop=C16 tier=quick cost=7 fns="muxer::mp4::SampleTables::from_samples" bound="1 sample, all pts/dts < 2^63" unwind=4 expect=fail kf=KF-C16-cts-offset-wraps
h!(c16_w_cts_offset, 4, {
    let (pts, dts): (u64, u64) = (kani::any(), kani::any());
    kani::assume(pts < (1 << 63) && dts < (1 << 63));
    let t = mp4h::tables_from_samples([mp4h::mk_sample(pts, dts, data(1), true, None)], Vec::new(), 1, None);
    assert!(mp4h::t_cts_offsets(&t)[0] as i128 == pts as i128 - dts as i128, "composition offset = pts - dts");
    core::mem::forget(t);
});

// ---- tkhd 16.16 width/height ---------------------------------------------------
//@ prop=C16 tier=quick cost=30 fns="muxer::mp4::build_tkhd_box_with_id,fragmented::build_tkhd_fmp4" bound="all u32 widths/heights" unwind=11
h!(c16_tkhd_dims, 11, {
    let (w, hh): (u32, u32) = (kani::any(), kani::any());
    if crate::known::KF_C16_TKHD_DIMS_LOSE_HIGH_BITS {
        kani::assume(w <= 0xffff && hh <= 0xffff);
    }
    let b = snap::<96>(&mp4h::build_tkhd_box_with_id(1, 0, w, hh));
    // (the progressive box is 96 bytes: see KF-C19-progressive-tkhd-layout; last 8 bytes are the dims)
    assert!(be32(&b, 88) as u64 == (w as u64) << 16 && be32(&b, 92) as u64 == (hh as u64) << 16, "tkhd 16.16 dims exact");
    let cfg = frag_cfg(w, hh);
    let f = snap::<92>(&fh::build_tkhd_fmp4(&cfg));
    assert!(be32(&f, 84) as u64 == (w as u64) << 16 && be32(&f, 88) as u64 == (hh as u64) << 16, "fragmented tkhd 16.16 dims exact");
    crate::vcover!(w == 0xffff, "largest representable width");
    core::mem::forget(cfg);
});
//@ prop=C16 tier=quick cost=19 fns="muxer::mp4::build_tkhd_box_with_id" bound="all u32 widths/heights" unwind=11 expect=fail kf=KF-C16-tkhd-dims-lose-high-bits
h!(c16_w_tkhd_dims, 11, {
    let (w, hh): (u32, u32) = (kani::any(), kani::any());
    let b = snap::<96>(&mp4h::build_tkhd_box_with_id(1, 0, w, hh));
    assert!(be32(&b, 88) as u64 == (w as u64) << 16 && be32(&b, 92) as u64 == (hh as u64) << 16, "tkhd 16.16 dims exact");
});

// ---- visual sample entry u16 dims (fragmented has no guard) -------------------
//@ prop=C16 tier=quick cost=14 fns="fragmented::build_avc1_fmp4" bound="all u32 widths/heights" unwind=40
h!(c16_frag_entry_dims, 40, {
    let (w, hh): (u32, u32) = (kani::any(), kani::any());
    if crate::known::KF_C16_FRAGMENTED_ENTRY_DIMS_TRUNCATE {
        kani::assume(w <= 0xffff && hh <= 0xffff);
    }
    let cfg = frag_cfg(w, hh);
    let b = snap::<105>(&fh::build_avc1_fmp4(&cfg));
    assert!(be16(&b, 32) as u32 == w && be16(&b, 34) as u32 == hh, "sample entry width/height exact");
    crate::vcover!(w > 4096, "large width");
    core::mem::forget(cfg);
});
//@ prop=C16 tier=quick cost=15 fns="fragmented::build_avc1_fmp4" bound="all u32 widths/heights" unwind=40 expect=fail kf=KF-C16-fragmented-entry-dims-truncate
h!(c16_w_frag_entry_dims, 40, {
    let (w, hh): (u32, u32) = (kani::any(), kani::any());
    let cfg = frag_cfg(w, hh);
    let b = snap::<105>(&fh::build_avc1_fmp4(&cfg));
    assert!(be16(&b, 32) as u32 == w && be16(&b, 34) as u32 == hh, "sample entry width/height exact");
    core::mem::forget(cfg);
});

// ---- mp4a 16.16 sample rate ----------------------------------------------------
//@ prop=C16 tier=quick cost=33 fns="muxer::mp4::build_mp4a_box" bound="all u32 sample rates, all u16 channel counts" unwind=12
h!(c16_mp4a_rate, 12, {
    let rate: u32 = kani::any();
    if crate::known::KF_C16_MP4A_RATE_LOSES_HIGH_BITS {
        kani::assume(rate <= 0xffff);
    }
    let t = Mp4AudioTrack { sample_rate: rate, channels: kani::any(), codec: AudioCodec::Aac(AacProfile::Lc) };
    let b = snap::<75>(&mp4h::build_mp4a_box(&t));
    assert!(be32(&b, 32) as u64 == (rate as u64) << 16, "sample entry 16.16 rate exact");
    assert!(be16(&b, 24) == t.channels, "channel count exact");
    crate::vcover!(rate == 48000, "48 kHz");
});
//@ prop=C16 tier=quick cost=30 fns="muxer::mp4::build_mp4a_box" bound="rates 88200 / 96000 / 192000" unwind=12 expect=fail kf=KF-C16-mp4a-rate-loses-high-bits
h!(c16_w_mp4a_rate, 12, {
    let rate: u32 = kani::any();
    kani::assume(rate == 88200 || rate == 96000 || rate == 192000);
    let t = Mp4AudioTrack { sample_rate: rate, channels: 2, codec: AudioCodec::Aac(AacProfile::Lc) };
    let b = snap::<75>(&mp4h::build_mp4a_box(&t));
    assert!(be32(&b, 32) as u64 == (rate as u64) << 16, "sample entry 16.16 rate exact");
});

// ---- writer 32-bit delta guards (hold) ------------------------------------------
struct NullSink;
impl std::io::Write for NullSink {
    fn write(&mut self, b: &[u8]) -> std::io::Result<usize> {
        Ok(b.len())
    }
    fn flush(&mut self) -> std::io::Result<()> {
        Ok(())
    }
}
//@ prop=C16 tier=quick cost=9 fns="muxer::mp4::Mp4Writer::write_video_sample_with_dts" bound="one queued sample, second sample any u64 dts" unwind=6
h!(c16_writer_delta_guard, 6, {
    let dts0: u64 = kani::any();
    let mut w = mp4h::writer_with_state::<NullSink, 1, 0>(
        NullSink, VideoCodec::Vp9, [mp4h::mk_sample(dts0, dts0, data(2), true, None)], None, [],
        Some(dts0), None, None, None, None, false, 0);
    let dts1: u64 = kani::any();
    let r = w.write_video_sample_with_dts(dts1, dts1, &[1u8, 2], false);
    if r.is_ok() {
        let s0 = mp4h::video_sample_digest(&w, 0).unwrap();
        assert!(s0.duration.unwrap() as u128 == dts1 as u128 - dts0 as u128, "stored 32-bit duration is the exact gap");
    } else {
        crate::vcover!(dts1 > dts0, "gap beyond 32 bits is reported as an error");
    }
    crate::vcover!(r.is_ok(), "accepted");
    core::mem::forget((w, r));
});

//@ prop=C16 tier=quick cost=13 fns="muxer::mp4::Mp4Writer::write_audio_sample" bound="one queued Opus sample, second valid packet at any u64 pts" unwind=6
h!(c16_writer_audio_delta_guard, 6, {
    let p0: u64 = kani::any();
    let mut w = mp4h::writer_with_state::<NullSink, 0, 1>(
        NullSink, VideoCodec::Vp9, [], Some(Mp4AudioTrack { sample_rate: 48000, channels: 2, codec: AudioCodec::Opus }),
        [mp4h::mk_sample(p0, p0, data(2), false, None)], None, None, Some(p0), None, None, false, 0);
    let p1: u64 = kani::any();
    let r = w.write_audio_sample(p1, &[0x08u8, 0x01]);
    if r.is_ok() {
        let s0 = mp4h::audio_sample_digest(&w, 0).unwrap();
        assert!(s0.duration.unwrap() as u128 == p1 as u128 - p0 as u128, "stored 32-bit audio duration is the exact gap");
        assert!(mp4h::writer_digest(&w).audio_last_delta.unwrap() as u128 == p1 as u128 - p0 as u128, "remembered last delta is the exact gap");
    } else {
        crate::vcover!(p1 > p0, "audio gap beyond 32 bits is reported as an error");
    }
    crate::vcover!(r.is_ok(), "accepted");
    core::mem::forget((w, r));
});

// ---- fragmented trun: duration (u64 -> u32) and composition offset (i64 -> i32) --
//@ prop=C16 tier=quick cost=26 fns="fragmented::build_trun" bound="2 samples (1 byte each), all u64 dts with dts0<=dts1 < 2^63, pts < 2^63" unwind=6 timeout=900
h!(c16_trun_fields, 6, {
    let (p0, d0, p1, d1): (u64, u64, u64, u64) = (kani::any(), kani::any(), kani::any(), kani::any());
    kani::assume(d0 <= d1 && d1 < (1 << 63) && p0 < (1 << 63) && p1 < (1 << 63));
    if crate::known::KF_C16_TRUN_DURATION_WRAPS {
        kani::assume(d1 - d0 <= u32::MAX as u64);
    }
    if crate::known::KF_C16_TRUN_CTS_WRAPS {
        let a = p0 as i128 - d0 as i128;
        let b = p1 as i128 - d1 as i128;
        kani::assume(a >= i32::MIN as i128 && a <= i32::MAX as i128 && b >= i32::MIN as i128 && b <= i32::MAX as i128);
    }
    let out = fh::build_trun([fh::mk_sample(p0, d0, data(1), true), fh::mk_sample(p1, d1, data(1), false)], 0);
    let v = snap::<52>(&out);
    assert!(be32(&v, 20) as u64 == d1 - d0, "first sample duration = DTS gap");
    assert!(be32(&v, 32) as i32 as i128 == p0 as i128 - d0 as i128, "first composition offset = pts - dts");
    assert!(be32(&v, 48) as i32 as i128 == p1 as i128 - d1 as i128, "second composition offset = pts - dts");
    crate::vcover!(p1 < d1, "negative offset");
});
//@ prop=C16 tier=quick cost=21 fns="fragmented::build_trun" bound="2 samples, all dts gaps" unwind=6 timeout=900 expect=fail kf=KF-C16-trun-duration-wraps
h!(c16_w_trun_duration, 6, {
    let (d0, d1): (u64, u64) = (kani::any(), kani::any());
    kani::assume(d0 <= d1 && d1 < (1 << 63));
    let out = fh::build_trun([fh::mk_sample(d0, d0, data(1), true), fh::mk_sample(d1, d1, data(1), false)], 0);
    let v = snap::<52>(&out);
    assert!(be32(&v, 20) as u64 == d1 - d0, "first sample duration = DTS gap");
});
//@ prop=C16 tier=quick cost=13 fns="fragmented::build_trun" bound="1 sample, all pts/dts < 2^63" unwind=6 timeout=900 expect=fail kf=KF-C16-trun-cts-wraps
h!(c16_w_trun_cts, 6, {
    let (p0, d0): (u64, u64) = (kani::any(), kani::any());
    kani::assume(d0 < (1 << 63) && p0 < (1 << 63));
    let out = fh::build_trun([fh::mk_sample(p0, d0, data(1), true)], 0);
    let v = snap::<36>(&out);
    assert!(be32(&v, 32) as i32 as i128 == p0 as i128 - d0 as i128, "composition offset = pts - dts");
});

// ---- API: f64 seconds -> u64 ticks ----------------------------------------------
//@ prop=C16 tier=quick cost=16 fns="api::Muxer::write_video" bound="first frame, any f64 pts; accepted => tick is the mathematical rounding, never a saturated value" unwind=12 timeout=900
h!(c16_api_tick_saturation, 12, {
    let mut m = MuxerBuilder::new(NullSink).video(VideoCodec::Vp9, 64, 64, 30.0).build().unwrap();
    let t: f64 = kani::any();
    if crate::known::KF_C16_API_TICK_SATURATES {
        kani::assume(!(t >= 2.0e14));
    }
    let frame = [0x49u8, 0x83, 0x42, 0x00, 0x00, 0x3f, 0x3f, 0x00, 0x00, 0x00];
    let r = m.write_video(t, &frame, true);
    if r.is_ok() {
        let s = mp4h::video_sample_digest(muxide::api::verif::writer(&m), 0).unwrap();
        // 2^64 as f64 is exact; an accepted tick must come from a product below it
        assert!(t * 90000.0 < 18446744073709551616.0, "accepted timestamps must be representable in 64-bit ticks");
        assert!(s.pts != u64::MAX || t * 90000.0 >= 18446744073709549568.0, "tick is not a saturated stand-in");
    }
    crate::vcover!(r.is_ok() && t > 1.0e9, "accepted huge timestamp");
    core::mem::forget((m, r));
});
//@ prop=C16 tier=quick cost=16 fns="api::Muxer::write_video" bound="first frame, pts >= 2e14 s" unwind=12 timeout=900 expect=fail kf=KF-C16-api-tick-saturates
h!(c16_w_api_tick_saturation, 12, {
    let mut m = MuxerBuilder::new(NullSink).video(VideoCodec::Vp9, 64, 64, 30.0).build().unwrap();
    let t: f64 = kani::any();
    kani::assume(t >= 2.0e14 && t <= 1.0e300);
    let frame = [0x49u8, 0x83, 0x42, 0x00, 0x00, 0x3f, 0x3f, 0x00, 0x00, 0x00];
    let r = m.write_video(t, &frame, true);
    assert!(r.is_err(), "a timestamp beyond the 64-bit tick range must be reported, not clipped");
    core::mem::forget((m, r));
});

// ---- avcC/hvcC parameter-set length (usize -> u16): NOT decided. A harness with one
// concrete 65536-byte SPS crashes CBMC 6.11 (exit status 139) before symbolic execution;
// the site is listed under "outside" in DESIGN.md.
