//! Stubs shared by the harnesses. Each is part of every claim that uses it.

/// Replacement for `muxide::invariant_ppt::__assert_invariant_impl`: keeps the
/// panic (the hazard C12 is about), drops the thread-local HashSet<String> log
/// (RandomState seeding is an FFI call Kani cannot model).
pub fn assert_invariant_stub(condition: bool, _message: &str, _context: Option<&str>) {
    if !condition {
        panic!("INVARIANT VIOLATION");
    }
}

/// Replacement for `alloc::fmt::format` in harnesses whose subject is not
/// formatting: error-message construction becomes an empty string.
pub fn format_stub(_args: core::fmt::Arguments<'_>) -> String {
    String::new()
}

/// No-op replacements for `String::push_str` / `String::push`, used only where the
/// strings are diagnostics (ADTS hex dump) and not the subject of the property.
pub fn string_push_str_stub(_s: &mut String, _x: &str) {}
pub fn string_push_stub(_s: &mut String, _c: char) {}

// ---------------------------------------------------------------------------
// Recording stand-in for Vec::<u8>::extend_from_slice: logs which slice is
// appended (address, length, first four bytes when short) instead of copying,
// and bumps the vector's length field so that is_empty()/len() stay truthful.
// Used for the Annex B conversion kernels whose only use of the output vector is
// `extend_from_slice` + `is_empty`; std's extend_from_slice itself is trusted.
// ---------------------------------------------------------------------------
pub const APPEND_LOG_MAX: usize = 12;
#[derive(Clone, Copy)]
pub struct Append {
    pub addr: usize,
    pub len: usize,
    pub head: [u8; 4],
}
pub static mut APPEND_LOG: [Append; APPEND_LOG_MAX] = [Append { addr: 0, len: 0, head: [0; 4] }; APPEND_LOG_MAX];
pub static mut APPEND_N: usize = 0;

#[cfg(kani)]
pub fn extend_from_slice_recording_stub<T: Clone, A: core::alloc::Allocator>(v: &mut Vec<T, A>, other: &[T]) {
    unsafe {
        let mut head = [0u8; 4];
        if core::mem::size_of::<T>() == 1 && other.len() == 4 {
            head = core::ptr::read(other.as_ptr() as *const [u8; 4]);
        }
        if APPEND_N < APPEND_LOG_MAX {
            APPEND_LOG[APPEND_N] = Append { addr: other.as_ptr() as usize, len: other.len(), head };
        }
        APPEND_N += 1;
        let n = v.len() + other.len();
        v.set_len(n);
    }
}
