//! C15 — audio and video samples are interleaved in timestamp order in the media data.
use crate::fin::*;
use crate::stubs::*;
use muxide::verif_hooks::mp4::verif as mp4h;

// (a) the schedule kernel: a permutation of all samples sorted by (pts, video<audio, index)
fn schedule_body<const NV: usize, const NA: usize>() {
    let vpts: [u64; NV] = kani::any();
    let apts: [u64; NA] = kani::any();
    let w = build_writer::<NV, NA>(RecSink::new(), vpts, core::array::from_fn(|i| i == 0), apts, true);
    let s = mp4h::interleave_schedule(&w);
    assert!(s.len() == NV + NA, "every sample is scheduled exactly once");
    let mut i = 0;
    while i < NV {
        let r = rank(&vpts, &apts, 0, i);
        assert!(s[r] == (vpts[i], true, i), "video sample sits at its (pts, video-first, index) rank");
        i += 1;
    }
    let mut j = 0;
    while j < NA {
        let r = rank(&vpts, &apts, 1, j);
        assert!(s[r] == (apts[j], false, j), "audio sample sits at its (pts, video-first, index) rank");
        j += 1;
    }
    crate::vcover!(NV > 0 && NA > 0 && vpts[0] == apts[0], "equal timestamps across tracks");
    crate::vcover!(NV > 0 && NA > 0 && apts[0] < vpts[0], "audio first");
    core::mem::forget((w, s));
}
macro_rules! sched_h {
    ($name:ident, $nv:expr, $na:expr, $unw:expr) => {
        #[kani::proof]
        #[kani::unwind($unw)]
        #[kani::stub(muxide::invariant_ppt::__assert_invariant_impl, crate::stubs::assert_invariant_stub)]
        pub fn $name() {
            schedule_body::<$nv, $na>();
        }
    };
}
//@ prop=C15 tier=quick cost=30 fns="Mp4Writer::compute_interleave_schedule,slice::sort_by_key" bound="1 video + 1 audio sample, all u64 pts" unwind=5
sched_h!(c15_schedule_v1a1, 1, 1, 5);
//@ prop=C15 tier=quick cost=38 fns="Mp4Writer::compute_interleave_schedule,slice::sort_by_key" bound="2 video + 1 audio samples, all u64 pts" unwind=6
sched_h!(c15_schedule_v2a1, 2, 1, 6);
//@ prop=C15 tier=quick cost=50 fns="Mp4Writer::compute_interleave_schedule,slice::sort_by_key" bound="2 video + 2 audio samples, all u64 pts" unwind=7
sched_h!(c15_schedule_v2a2, 2, 2, 7);
//@ prop=C15 tier=thorough cost=300 fns="Mp4Writer::compute_interleave_schedule,slice::sort_by_key" bound="3 video + 2 audio samples, all u64 pts" unwind=8 timeout=2500
sched_h!(c15_schedule_v3a2, 3, 2, 8);
//@ prop=C15 tier=thorough cost=300 fns="Mp4Writer::compute_interleave_schedule,slice::sort_by_key" bound="3 video + 1 audio samples, all u64 pts" unwind=7 timeout=2500
sched_h!(c15_schedule_v3a1, 3, 1, 7);

// (b) the order in which payloads reach the sink = that schedule, in both layouts
fn order_body<const NV: usize, const NA: usize>(fast_start: bool) {
    let vpts: [u64; NV] = kani::any();
    let apts: [u64; NA] = kani::any();
    let mut i = 0;
    while i < NV {
        kani::assume(vpts[i] < (1 << 63));
        i += 1;
    }
    let c = carrier(8);
    let mut w = build_writer::<NV, NA>(RecSink::new(), vpts, core::array::from_fn(|i| i == 0), apts, true);
    let r = w.finalize(&c.track, None, fast_start);
    assert!(r.is_ok());
    if replay_mode() {
        let vkey: [bool; NV] = core::array::from_fn(|i| i == 0);
        native_finalize_check::<NV, NA>(&mp4h::sink(&w).log, &vpts, &vkey, &apts, true, fast_start);
        core::mem::forget((w, r));
        return;
    }
    let sink = mp4h::sink(&w);
    let data_start = sink.pos_of(b'm').unwrap() + 4;
    let mut i = 0;
    while i < NV {
        let want = data_start + bytes_before(&vpts, &apts, rank(&vpts, &apts, 0, i));
        assert!(sink.pos_of(vtag(i)) == Some(want), "video payload stored at its timestamp-merge position");
        i += 1;
    }
    let mut j = 0;
    while j < NA {
        let want = data_start + bytes_before(&vpts, &apts, rank(&vpts, &apts, 1, j));
        assert!(sink.pos_of(atag(j)) == Some(want), "audio payload stored at its timestamp-merge position");
        j += 1;
    }
    // non-reordered input: each track's samples are stored in sample order
    if NV == 2 && vpts[0] <= vpts[1] {
        assert!(sink.pos_of(vtag(0)) < sink.pos_of(vtag(1)), "video samples stored in sample order");
    }
    crate::vcover!(NV > 0 && NA > 0 && vpts[0] == apts[0], "equal timestamps: video first");
    crate::vcover!(NV > 0 && NA > 0 && apts[0] < vpts[0], "audio stored before video");
    core::mem::forget((w, r));
}
macro_rules! order_h {
    ($name:ident, $nv:expr, $na:expr, $fast:expr, $unw:expr) => {
        #[kani::proof]
        #[kani::unwind($unw)]
        #[kani::stub(muxide::invariant_ppt::__assert_invariant_impl, crate::stubs::assert_invariant_stub)]
        #[kani::stub(muxide::muxer::mp4::build_moov_box, muxide::verif_hooks::mp4::verif::moov_recording_stub)]
        pub fn $name() {
            order_body::<$nv, $na>($fast);
        }
    };
}
//@ prop=C15 tier=quick cost=149 fns="Mp4Writer::finalize,finalize_standard,compute_interleave_schedule" bound="standard layout, 1 video + 1 audio sample, all u64 pts" unwind=6 stubs="build_moov_box(recording stand-in)" timeout=1200
order_h!(c15_order_std_v1a1, 1, 1, false, 6);
//@ prop=C15 tier=quick cost=230 fns="Mp4Writer::finalize,finalize_fast_start,compute_interleave_schedule" bound="fast start, 1 video + 1 audio sample, all u64 pts" unwind=6 stubs="build_moov_box(recording stand-in)" timeout=1200
order_h!(c15_order_fast_v1a1, 1, 1, true, 6);
//@ prop=C15 tier=thorough cost=900 fns="Mp4Writer::finalize,finalize_standard,compute_interleave_schedule" bound="standard layout, 2 video + 1 audio samples, all u64 pts" unwind=6 stubs="build_moov_box(recording stand-in)" timeout=3000 mem=30
order_h!(c15_order_std_v2a1, 2, 1, false, 6);
//@ prop=C15 tier=thorough cost=1200 fns="Mp4Writer::finalize,finalize_fast_start,compute_interleave_schedule" bound="fast start, 2 video + 1 audio samples, all u64 pts" unwind=6 stubs="build_moov_box(recording stand-in)" timeout=3000 mem=30
order_h!(c15_order_fast_v2a1, 2, 1, true, 6);
