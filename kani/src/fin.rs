//! Shared scaffolding for the finalize-family harnesses (C01, C06, C08, C13, C15):
//! a recording sink, tagged payloads, a hook-built writer with a concrete sample
//! count, and the reference layout computed from the symbolic timestamps.
#![cfg(kani)]
use muxide::api::{AudioCodec, VideoCodec};
use muxide::verif_hooks::mp4::verif as mp4h;
use muxide::verif_hooks::mp4::{Mp4AudioTrack, Mp4VideoTrack, Mp4Writer};

pub const K: usize = 12;

/// Sink that records, per `write` call, the accepted length and the first byte, and can
/// be scripted to fail or shorten writes (C13).
pub struct RecSink {
    pub calls: usize,
    pub lens: [usize; K],
    pub firsts: [u8; K],
    pub total: u64,
    /// the (concrete) 0-based index of the write call that misbehaves
    pub fault_at: usize,
    /// what happens there (symbolic data): hard error / Interrupted / at most `accept` bytes taken
    pub fault_fail: bool,
    pub fault_intr: bool,
    pub fault_accept: usize,
    pub failed: bool,
}
impl RecSink {
    pub fn new() -> Self {
        RecSink { calls: 0, lens: [0; K], firsts: [0; K], total: 0, fault_at: usize::MAX, fault_fail: false, fault_intr: false, fault_accept: usize::MAX, failed: false }
    }
    /// absolute position at which the write whose first byte is `tag` started
    /// (loop-free: unrolled over the K record slots so that harness unwind bounds stay small)
    pub fn pos_of(&self, tag: u8) -> Option<u64> {
        let mut pos = 0u64;
        macro_rules! step {
            ($($i:expr),*) => { $(
                if $i < self.calls && self.lens[$i] > 0 {
                    if self.firsts[$i] == tag {
                        return Some(pos);
                    }
                    pos += self.lens[$i] as u64;
                }
            )* };
        }
        step!(0, 1, 2, 3, 4, 5, 6, 7, 8, 9, 10, 11);
        None
    }
    pub fn count_tag(&self, tag: u8) -> usize {
        let mut n = 0;
        macro_rules! step {
            ($($i:expr),*) => { $(
                if $i < self.calls && self.lens[$i] > 0 && self.firsts[$i] == tag {
                    n += 1;
                }
            )* };
        }
        step!(0, 1, 2, 3, 4, 5, 6, 7, 8, 9, 10, 11);
        n
    }
}
impl std::io::Write for RecSink {
    fn write(&mut self, buf: &[u8]) -> std::io::Result<usize> {
        let idx = self.calls;
        self.calls += 1;
        let mut n = buf.len();
        if idx == self.fault_at {
            if self.fault_fail {
                self.failed = true;
                return Err(std::io::Error::from(std::io::ErrorKind::Other));
            }
            if self.fault_intr {
                return Err(std::io::Error::from(std::io::ErrorKind::Interrupted));
            }
            if self.fault_accept < n {
                n = self.fault_accept;
            }
            if n == 0 && !buf.is_empty() {
                // a sink that takes nothing: write_all turns this into a WriteZero failure
                self.failed = true;
            }
        }
        if idx < K {
            self.lens[idx] = n;
            self.firsts[idx] = if n > 0 { buf[0] } else { 0 };
        }
        self.total += n as u64;
        Ok(n)
    }
    fn flush(&mut self) -> std::io::Result<()> {
        Ok(())
    }
}

pub fn vtag(i: usize) -> u8 {
    0x10 + i as u8
}
pub fn atag(j: usize) -> u8 {
    0x80 + j as u8
}
pub const MOOV_TAG: u8 = 0xA5;
pub const FTYP_LEN: u64 = 24;

pub fn payload(tag: u8, n: usize) -> Vec<u8> {
    let mut v = Vec::with_capacity(n);
    let mut i = 0;
    while i < n {
        v.push(tag);
        i += 1;
    }
    v
}
/// concrete, distinct sizes
pub const VSIZE: [usize; 3] = [2, 3, 1];
pub const ASIZE: [usize; 2] = [1, 2];

pub fn audio_track() -> Mp4AudioTrack {
    Mp4AudioTrack { sample_rate: 48000, channels: 2, codec: AudioCodec::Opus }
}
pub const VIDEO: Mp4VideoTrack = Mp4VideoTrack { width: 64, height: 48 };

/// Writer with NV video (DTS = 1000*i, symbolic PTS, symbolic key flags, durations set
/// as the real writer would) and NA audio samples (symbolic non-decreasing? no: arbitrary
/// PTS — the schedule must cope with any order).
pub fn build_writer<const NV: usize, const NA: usize>(
    sink: RecSink,
    vpts: [u64; NV],
    vkey: [bool; NV],
    apts: [u64; NA],
    with_audio_track: bool,
) -> Mp4Writer<RecSink> {
    let video: [_; NV] = core::array::from_fn(|i| {
        mp4h::mk_sample(vpts[i], 1000 * i as u64, payload(vtag(i), VSIZE[i]), vkey[i], if i + 1 < NV { Some(1000) } else { None })
    });
    let audio: [_; NA] = core::array::from_fn(|j| {
        mp4h::mk_sample(apts[j], apts[j], payload(atag(j), ASIZE[j]), false, None)
    });
    mp4h::writer_with_state::<RecSink, NV, NA>(
        sink,
        VideoCodec::Vp9,
        video,
        if with_audio_track { Some(audio_track()) } else { None },
        audio,
        if NV > 0 { Some(1000 * (NV as u64 - 1)) } else { None },
        if NV > 1 { Some(1000) } else { None },
        if NA > 0 { Some(apts[NA - 1]) } else { None },
        None,
        Some(muxide::verif_hooks::mp4::VideoConfig::Vp9(muxide::codec::vp9::Vp9Config {
            width: 64, height: 48, profile: 0, bit_depth: 8, color_space: 0, transfer_function: 0, matrix_coefficients: 0, level: 0, full_range_flag: 0,
        })),
        false,
        0,
    )
}

/// Reference interleave rank: position of (kind, idx) in the order sorted by
/// (pts, video-before-audio, index).  kind: 0 = video, 1 = audio.
pub fn rank<const NV: usize, const NA: usize>(vpts: &[u64; NV], apts: &[u64; NA], kind: u8, idx: usize) -> usize {
    let (p, k, x) = (if kind == 0 { vpts[idx] } else { apts[idx] }, kind, idx);
    let mut r = 0;
    let mut i = 0;
    while i < NV {
        let before = vpts[i] < p || (vpts[i] == p && (0 < k || (0 == k && i < x)));
        if before {
            r += 1;
        }
        i += 1;
    }
    let mut j = 0;
    while j < NA {
        let before = apts[j] < p || (apts[j] == p && (1 < k || (1 == k && j < x)));
        if before {
            r += 1;
        }
        j += 1;
    }
    r
}

/// Sum of payload sizes of all samples whose reference rank is below r.
pub fn bytes_before<const NV: usize, const NA: usize>(vpts: &[u64; NV], apts: &[u64; NA], r: usize) -> u64 {
    let mut s = 0u64;
    let mut i = 0;
    while i < NV {
        if rank(vpts, apts, 0, i) < r {
            s += VSIZE[i] as u64;
        }
        i += 1;
    }
    let mut j = 0;
    while j < NA {
        if rank(vpts, apts, 1, j) < r {
            s += ASIZE[j] as u64;
        }
        j += 1;
    }
    s
}

pub fn total_payload<const NV: usize, const NA: usize>() -> u64 {
    let mut s = 0u64;
    let mut i = 0;
    while i < NV {
        s += VSIZE[i] as u64;
        i += 1;
    }
    let mut j = 0;
    while j < NA {
        s += ASIZE[j] as u64;
        j += 1;
    }
    s
}


// ---------------------------------------------------------------------------------------
// The moov stand-in records the tables it is handed into a carrier owned by the harness
// (hook: mp4::verif::MoovCarrier); finalize is called with `&carrier.track`.
// ---------------------------------------------------------------------------------------
pub fn carrier(stub_len: usize) -> mp4h::MoovCarrier {
    unsafe {
        mp4h::MOOV_USE_CARRIER = true;
    }
    mp4h::MoovCarrier::new(64, 48, stub_len)
}
/// API-level harnesses cannot pass a carrier (the track struct is built inside the API):
/// the stand-in then records nothing and returns 8 tagged bytes.
pub fn no_carrier() {
    unsafe {
        mp4h::MOOV_USE_CARRIER = false;
    }
}
/// the tables of the LAST moov build (the one whose bytes are written)
pub fn final_call(c: &mp4h::MoovCarrier) -> mp4h::MoovCall {
    if c.calls.get() >= 2 {
        c.call1.get()
    } else {
        c.call0.get()
    }
}
