//! Shared scaffolding for the finalize-family harnesses (C01, C06, C08, C13, C15):
//! a recording sink, tagged payloads, a hook-built writer with a concrete sample
//! count, and the reference layout computed from the symbolic timestamps.
#![cfg(kani)]
use muxide::api::{AudioCodec, VideoCodec};
use muxide::verif_hooks::mp4::verif as mp4h;
use muxide::verif_hooks::mp4::{Mp4AudioTrack, Mp4VideoTrack, Mp4Writer};

pub const K: usize = 12;

/// Native replay mode: set by the generated playback test before it runs a harness. Kani's
/// concrete playback does not apply stubs, so the real build_moov_box runs there; harnesses
/// then judge the REAL output file with `native_mp4` instead of the recorded tables.
static mut REPLAY: bool = false;
pub fn set_replay(on: bool) {
    unsafe {
        REPLAY = on;
    }
}
pub fn replay_mode() -> bool {
    unsafe { REPLAY }
}

/// Sink that records, per `write` call, the accepted length and the first byte, and can
/// be scripted to fail or shorten writes (C13).
pub struct RecSink {
    pub calls: usize,
    pub lens: [usize; K],
    pub firsts: [u8; K],
    pub total: u64,
    /// the (concrete) 0-based index of the write call that misbehaves
    pub fault_at: usize,
    /// what happens there (symbolic data): hard error / Interrupted / at most `accept` bytes taken
    pub fault_fail: bool,
    pub fault_intr: bool,
    pub fault_accept: usize,
    pub failed: bool,
    /// every accepted byte — filled only in native replay mode (never during verification)
    pub log: Vec<u8>,
}
impl RecSink {
    pub fn new() -> Self {
        RecSink { calls: 0, lens: [0; K], firsts: [0; K], total: 0, fault_at: usize::MAX, fault_fail: false, fault_intr: false, fault_accept: usize::MAX, failed: false, log: Vec::new() }
    }
    /// absolute position at which the write whose first byte is `tag` started
    /// (loop-free: unrolled over the K record slots so that harness unwind bounds stay small)
    pub fn pos_of(&self, tag: u8) -> Option<u64> {
        let mut pos = 0u64;
        macro_rules! step {
            ($($i:expr),*) => { $(
                if $i < self.calls && self.lens[$i] > 0 {
                    if self.firsts[$i] == tag {
                        return Some(pos);
                    }
                    pos += self.lens[$i] as u64;
                }
            )* };
        }
        step!(0, 1, 2, 3, 4, 5, 6, 7, 8, 9, 10, 11);
        None
    }
    pub fn count_tag(&self, tag: u8) -> usize {
        let mut n = 0;
        macro_rules! step {
            ($($i:expr),*) => { $(
                if $i < self.calls && self.lens[$i] > 0 && self.firsts[$i] == tag {
                    n += 1;
                }
            )* };
        }
        step!(0, 1, 2, 3, 4, 5, 6, 7, 8, 9, 10, 11);
        n
    }
}
impl std::io::Write for RecSink {
    fn write(&mut self, buf: &[u8]) -> std::io::Result<usize> {
        let idx = self.calls;
        self.calls += 1;
        let mut n = buf.len();
        if idx == self.fault_at {
            if self.fault_fail {
                self.failed = true;
                return Err(std::io::Error::from(std::io::ErrorKind::Other));
            }
            if self.fault_intr {
                return Err(std::io::Error::from(std::io::ErrorKind::Interrupted));
            }
            if self.fault_accept < n {
                n = self.fault_accept;
            }
            if n == 0 && !buf.is_empty() {
                // a sink that takes nothing: write_all turns this into a WriteZero failure
                self.failed = true;
            }
        }
        if replay_mode() {
            self.log.extend_from_slice(&buf[..n]);
        }
        if idx < K {
            self.lens[idx] = n;
            self.firsts[idx] = if n > 0 { buf[0] } else { 0 };
        }
        self.total += n as u64;
        Ok(n)
    }
    fn flush(&mut self) -> std::io::Result<()> {
        Ok(())
    }
}

pub fn vtag(i: usize) -> u8 {
    0x10 + i as u8
}
pub fn atag(j: usize) -> u8 {
    0x80 + j as u8
}
pub const MOOV_TAG: u8 = 0xA5;
pub const FTYP_LEN: u64 = 24;

pub fn payload(tag: u8, n: usize) -> Vec<u8> {
    let mut v = Vec::with_capacity(n);
    let mut i = 0;
    while i < n {
        v.push(tag);
        i += 1;
    }
    v
}
/// concrete, distinct sizes
pub const VSIZE: [usize; 3] = [2, 3, 1];
pub const ASIZE: [usize; 2] = [1, 2];

pub fn audio_track() -> Mp4AudioTrack {
    Mp4AudioTrack { sample_rate: 48000, channels: 2, codec: AudioCodec::Opus }
}
pub const VIDEO: Mp4VideoTrack = Mp4VideoTrack { width: 64, height: 48 };

/// Writer with NV video (DTS = 1000*i, symbolic PTS, symbolic key flags, durations set
/// as the real writer would) and NA audio samples (symbolic non-decreasing? no: arbitrary
/// PTS — the schedule must cope with any order).
pub fn build_writer<const NV: usize, const NA: usize>(
    sink: RecSink,
    vpts: [u64; NV],
    vkey: [bool; NV],
    apts: [u64; NA],
    with_audio_track: bool,
) -> Mp4Writer<RecSink> {
    let video: [_; NV] = core::array::from_fn(|i| {
        mp4h::mk_sample(vpts[i], 1000 * i as u64, payload(vtag(i), VSIZE[i]), vkey[i], if i + 1 < NV { Some(1000) } else { None })
    });
    let audio: [_; NA] = core::array::from_fn(|j| {
        mp4h::mk_sample(apts[j], apts[j], payload(atag(j), ASIZE[j]), false, None)
    });
    mp4h::writer_with_state::<RecSink, NV, NA>(
        sink,
        VideoCodec::Vp9,
        video,
        if with_audio_track { Some(audio_track()) } else { None },
        audio,
        if NV > 0 { Some(1000 * (NV as u64 - 1)) } else { None },
        if NV > 1 { Some(1000) } else { None },
        if NA > 0 { Some(apts[NA - 1]) } else { None },
        None,
        Some(muxide::verif_hooks::mp4::VideoConfig::Vp9(muxide::codec::vp9::Vp9Config {
            width: 64, height: 48, profile: 0, bit_depth: 8, color_space: 0, transfer_function: 0, matrix_coefficients: 0, level: 0, full_range_flag: 0,
        })),
        false,
        0,
    )
}

/// Reference interleave rank: position of (kind, idx) in the order sorted by
/// (pts, video-before-audio, index).  kind: 0 = video, 1 = audio.
pub fn rank<const NV: usize, const NA: usize>(vpts: &[u64; NV], apts: &[u64; NA], kind: u8, idx: usize) -> usize {
    let (p, k, x) = (if kind == 0 { vpts[idx] } else { apts[idx] }, kind, idx);
    let mut r = 0;
    let mut i = 0;
    while i < NV {
        let before = vpts[i] < p || (vpts[i] == p && (0 < k || (0 == k && i < x)));
        if before {
            r += 1;
        }
        i += 1;
    }
    let mut j = 0;
    while j < NA {
        let before = apts[j] < p || (apts[j] == p && (1 < k || (1 == k && j < x)));
        if before {
            r += 1;
        }
        j += 1;
    }
    r
}

/// Sum of payload sizes of all samples whose reference rank is below r.
pub fn bytes_before<const NV: usize, const NA: usize>(vpts: &[u64; NV], apts: &[u64; NA], r: usize) -> u64 {
    let mut s = 0u64;
    let mut i = 0;
    while i < NV {
        if rank(vpts, apts, 0, i) < r {
            s += VSIZE[i] as u64;
        }
        i += 1;
    }
    let mut j = 0;
    while j < NA {
        if rank(vpts, apts, 1, j) < r {
            s += ASIZE[j] as u64;
        }
        j += 1;
    }
    s
}

pub fn total_payload<const NV: usize, const NA: usize>() -> u64 {
    let mut s = 0u64;
    let mut i = 0;
    while i < NV {
        s += VSIZE[i] as u64;
        i += 1;
    }
    let mut j = 0;
    while j < NA {
        s += ASIZE[j] as u64;
        j += 1;
    }
    s
}


// ---------------------------------------------------------------------------------------
// The moov stand-in records the tables it is handed into a carrier owned by the harness
// (hook: mp4::verif::MoovCarrier); finalize is called with `&carrier.track`.
// ---------------------------------------------------------------------------------------
pub fn carrier(stub_len: usize) -> mp4h::MoovCarrier {
    unsafe {
        mp4h::MOOV_USE_CARRIER = true;
    }
    mp4h::MoovCarrier::new(64, 48, stub_len)
}
/// API-level harnesses cannot pass a carrier (the track struct is built inside the API):
/// the stand-in then records nothing and returns 8 tagged bytes.
pub fn no_carrier() {
    unsafe {
        mp4h::MOOV_USE_CARRIER = false;
    }
}
/// the tables of the LAST moov build (the one whose bytes are written)
pub fn final_call(c: &mp4h::MoovCarrier) -> mp4h::MoovCall {
    if c.calls.get() >= 2 {
        c.call1.get()
    } else {
        c.call0.get()
    }
}

// ---------------------------------------------------------------------------------------
// Native replay oracle for the finalize family: everything the harnesses assert through the
// recording stand-in, re-checked on the real file (real moov) that a concrete replay produces.
// Panics (= counterexample reproduced) on the first violated clause.
// ---------------------------------------------------------------------------------------
pub fn native_finalize_check<const NV: usize, const NA: usize>(file: &[u8], vpts: &[u64; NV], vkey: &[bool; NV], apts: &[u64; NA], audio_track: bool, fast_start: bool) {
    use crate::native_mp4::parse;
    let p = match parse(file) {
        Ok(p) => p,
        Err(e) => panic!("native replay: output is not a well-formed box tree: {}", e),
    };
    let names: Vec<[u8; 4]> = p.top.iter().map(|t| t.0).collect();
    let have_mdat = NV + NA > 0 || fast_start || audio_track;
    let want: Vec<[u8; 4]> = if !have_mdat {
        vec![*b"ftyp", *b"moov"]
    } else if fast_start {
        vec![*b"ftyp", *b"moov", *b"mdat"]
    } else {
        vec![*b"ftyp", *b"mdat", *b"moov"]
    };
    assert!(names == want, "native replay: top-level box order {:?} differs from the layout", names);
    assert!(p.tracks.len() == if audio_track { 2 } else { 1 }, "native replay: one track per configured stream");
    let mdat = p.top.iter().find(|t| &t.0 == b"mdat");
    let v = &p.tracks[0];
    assert!(&v.handler == b"vide" && v.stsz.len() == NV, "native replay: video track has one table row per sample");
    let vr = v.sample_ranges().unwrap_or_else(|e| panic!("native replay: video chunk tables inconsistent: {}", e));
    let mut all: Vec<(usize, usize)> = Vec::new();
    for i in 0..NV {
        assert!(vr[i].1 - vr[i].0 == VSIZE[i], "native replay: video sample {} has the wrong size", i);
        assert!(file[vr[i].0..vr[i].1].iter().all(|&b| b == vtag(i)), "native replay: video sample {} does not resolve to its own payload bytes", i);
        all.push(vr[i]);
    }
    let keys: Vec<u32> = (0..NV).filter(|&i| vkey[i]).map(|i| i as u32 + 1).collect();
    assert!(v.stss.clone().unwrap_or_default() == keys, "native replay: sync table differs from the submitted key flags");
    // timing tables as built by `build_writer`
    let want_d: Vec<u32> = (0..NV).map(|_| if NV > 1 { 1000 } else { 1 }).collect();
    assert!(v.durations() == want_d, "native replay: video durations differ");
    let want_c: Vec<i32> = (0..NV).map(|i| (vpts[i] as i64 - 1000 * i as i64) as i32).collect();
    let any = want_c.iter().any(|&c| c != 0);
    assert!(v.cts().is_some() == any, "native replay: ctts present iff some offset is non-zero");
    if let Some(c) = v.cts() {
        assert!(c == want_c, "native replay: composition offsets differ");
    }
    assert!(v.mdhd_duration as u64 == want_d.iter().map(|&d| d as u64).sum::<u64>(), "native replay: mdhd duration differs from the table sum");
    if audio_track {
        let a = &p.tracks[1];
        assert!(&a.handler == b"soun" && a.stsz.len() == NA, "native replay: audio track has one table row per sample");
        let ar = a.sample_ranges().unwrap_or_else(|e| panic!("native replay: audio chunk tables inconsistent: {}", e));
        for j in 0..NA {
            assert!(ar[j].1 - ar[j].0 == ASIZE[j], "native replay: audio sample {} has the wrong size", j);
            assert!(file[ar[j].0..ar[j].1].iter().all(|&b| b == atag(j)), "native replay: audio sample {} does not resolve to its own payload bytes", j);
            all.push(ar[j]);
        }
        assert!(a.stss.is_none(), "native replay: audio has no sync table");
    }
    if let Some(m) = mdat {
        // ranges inside mdat, pairwise disjoint, covering its payload exactly
        all.sort();
        let mut pos = m.1 + 8;
        for r in &all {
            assert!(r.0 == pos, "native replay: sample ranges do not tile the mdat payload");
            pos = r.1;
        }
        assert!(pos == m.1 + m.2, "native replay: sample ranges do not cover the mdat payload exactly");
        // storage order = merge by (pts, video first, index)
        if audio_track {
            for i in 0..NV {
                let want = m.1 + 8 + bytes_before(vpts, apts, rank(vpts, apts, 0, i)) as usize;
                assert!(vr[i].0 == want, "native replay: video sample {} is not stored at its timestamp-merge position", i);
            }
        }
    } else {
        assert!(all.is_empty());
    }
}
