//! C10 — fragmented muxing conserves samples across any write/flush interleaving.
//! C11 — fragmented segments carry a consistent timeline and a stable init segment.
//! Decided as (a) the media-segment kernel on 1..3 queued samples with symbolic
//! timestamps/flags and (b) the step relation of every public method from an arbitrary
//! hook-built valid state; conservation and numbering over any history follow by induction.
use crate::bx::*;
use crate::stubs::*;
use muxide::fragmented::verif as fh;
use muxide::fragmented::{FragmentConfig, FragmentedError, FragmentedMuxer};

macro_rules! h {
    ($name:ident, $unw:expr, $body:block) => {
        #[kani::proof]
        #[kani::unwind($unw)]
        #[kani::stub(muxide::invariant_ppt::__assert_invariant_impl, crate::stubs::assert_invariant_stub)]
        pub fn $name() {
            $body;
        }
    };
}
fn data(tag: u8, n: usize) -> Vec<u8> {
    let mut v = Vec::with_capacity(n);
    let mut i = 0;
    while i < n {
        v.push(tag);
        i += 1;
    }
    v
}
fn cfg(timescale: u32, frag_ms: u32) -> FragmentConfig {
    FragmentConfig { width: 64, height: 48, timescale, fragment_duration_ms: frag_ms, sps: Vec::new(), pps: Vec::new(), vps: None, av1_sequence_header: None, vp9_config: None }
}
const SIZES: [usize; 3] = [2, 0, 3];

/// Strict reader of a media segment of N samples with the given payload sizes.
/// Layout: moof(8) { mfhd(16) traf(8) { tfhd(16) tfdt(20) trun(20 + 16 N) } } mdat(8 + sum).
fn check_segment<const N: usize>(v: &[u8], seq: u32, base: u64, pts: &[u64; N], dts: &[u64; N], sync: &[bool; N], tags: &[u8; N], check_timing: bool) {
    let trun = 20 + 16 * N;
    let traf = 8 + 16 + 20 + trun;
    let moof = 8 + 16 + traf;
    let mut sum = 0usize;
    let mut i = 0;
    while i < N {
        sum += SIZES[i];
        i += 1;
    }
    assert!(v.len() == moof + 8 + sum, "segment = one moof + one mdat, nothing else");
    assert!(box_is(v, 0, moof, b"moof"), "moof first, its size tiles");
    assert!(box_is(v, 8, 16, b"mfhd") && be32(v, 16) == 0 && be32(v, 20) == seq, "mfhd carries the sequence number");
    assert!(box_is(v, 24, traf, b"traf"), "one traf filling the rest of moof");
    assert!(box_is(v, 32, 16, b"tfhd") && be32(v, 40) == 0x0002_0000 && be32(v, 44) == 1, "tfhd: default-base-is-moof, track 1");
    assert!(box_is(v, 48, 20, b"tfdt") && be32(v, 56) == 0x0100_0000 && be64(v, 60) == base, "tfdt v1 = base decode time");
    assert!(box_is(v, 68, trun, b"trun") && be32(v, 76) == 0x0100_0f01, "trun v1 with offset/duration/size/flags/cto");
    assert!(be32(v, 80) as usize == N, "trun sample count");
    assert!(be32(v, 84) as usize == moof + 8, "data_offset = moof size + mdat header");
    assert!(box_is(v, moof, 8 + sum, b"mdat"), "mdat follows, its size tiles");
    let mut off = moof + 8;
    let mut i = 0;
    while i < N {
        let e = 88 + 16 * i;
        assert!(be32(v, e + 4) as usize == SIZES[i], "sample size");
        assert!((be32(v, e + 8) & 0x0001_0000 == 0) == sync[i], "non-sync flag = !is_sync");
        if check_timing {
            let want = if i + 1 < N { dts[i + 1] - dts[i] } else if i > 0 { dts[i] - dts[i - 1] } else { 3000 };
            assert!(be32(v, e) as u64 == want, "duration = DTS difference (last: previous difference; lone sample: 3000)");
            assert!(be32(v, e + 12) as i32 as i128 == pts[i] as i128 - dts[i] as i128, "composition offset = pts - dts");
        }
        // payload bytes, in queue order, located through data_offset
        let mut k = 0;
        while k < SIZES[i] {
            assert!(v[off + k] == tags[i], "sample bytes unaltered and in order");
            k += 1;
        }
        off += SIZES[i];
        i += 1;
    }
    assert!(off == v.len(), "mdat payload is exactly the concatenation of the samples");
}

macro_rules! segment_h {
    ($name:ident, $n:expr, $total:expr) => {
        h!($name, 8, {
            let pts: [u64; $n] = kani::any();
            let dts: [u64; $n] = kani::any();
            let sync: [bool; $n] = kani::any();
            let tags: [u8; $n] = kani::any();
            let seq: u32 = kani::any();
            let base: u64 = kani::any();
            // accepted histories have non-decreasing DTS; ticks < 2^63; fields fit (C16 decides the rest)
            let mut i = 0;
            while i < $n {
                kani::assume(dts[i] < (1 << 63) && pts[i] < (1 << 63));
                let off = pts[i] as i128 - dts[i] as i128;
                kani::assume(off >= i32::MIN as i128 && off <= i32::MAX as i128);
                if i > 0 {
                    kani::assume(dts[i - 1] <= dts[i] && dts[i] - dts[i - 1] <= u32::MAX as u64);
                }
                i += 1;
            }
            let samples: [_; $n] = core::array::from_fn(|i| fh::mk_sample(pts[i], dts[i], data(tags[i], SIZES[i]), sync[i]));
            let out = fh::build_media_segment(samples, seq, base, 90000);
            let v = snap::<$total>(&out);
            check_segment::<$n>(&v, seq, base, &pts, &dts, &sync, &tags, true);
            crate::vcover!($n < 2 || dts[0] == dts[1], "equal DTS");
            crate::vcover!(pts[0] < dts[0], "negative composition offset");
            crate::vcover!(!sync[0], "non-sync sample");
        });
    };
}
//@ prop=C10 tier=quick cost=276 fns="fragmented::build_media_segment,build_moof_with_offset,build_traf,build_trun,build_mfhd,build_tfhd,build_tfdt" bound="1 sample (2 bytes), all u64 pts/dts < 2^63 with |pts-dts| < 2^31, any sync flag, seq, base" unwind=8 covers_optional="equal DTS" timeout=900
segment_h!(c10_segment_1, 1, 114);
//@ prop=C10 tier=thorough cost=600 fns="fragmented::build_media_segment,build_moof_with_offset,build_traf,build_trun" bound="2 samples (2 and 0 bytes), all non-decreasing u64 dts with 32-bit gaps, any pts/sync/seq/base" unwind=8 mem=22 timeout=1400
segment_h!(c10_segment_2, 2, 130);
//@ prop=C10 tier=thorough cost=400 fns="fragmented::build_media_segment,build_moof_with_offset,build_traf,build_trun" bound="3 samples (2, 0, 3 bytes), all non-decreasing u64 dts with 32-bit gaps, any pts/sync/seq/base" unwind=8 timeout=3400 mem=34
segment_h!(c10_segment_3, 3, 149);
//@ prop=C11 tier=quick cost=600 fns="fragmented::build_trun,build_tfdt" bound="2 samples, all non-decreasing u64 dts with 32-bit gaps, any pts/sync/base (timing clauses)" unwind=8 mem=18 timeout=1400
segment_h!(c11_segment_timing_2, 2, 130);
//@ prop=C11 tier=thorough cost=400 fns="fragmented::build_trun,build_tfdt" bound="3 samples (timing clauses)" unwind=8 timeout=3400 mem=34
segment_h!(c11_segment_timing_3, 3, 149);

// ---------------------------------------------------------------------------
// (b) step relation from an arbitrary valid state with K queued samples
// ---------------------------------------------------------------------------
fn state<const K: usize>(dts: [u64; K], seq: u32, base: u64, last_dts: Option<u64>, timescale: u32, frag_ms: u32) -> FragmentedMuxer {
    let samples: [_; K] = core::array::from_fn(|i| fh::mk_sample(dts[i], dts[i], data(0x20 + i as u8, SIZES[i]), i == 0));
    fh::muxer_with_state::<K>(cfg(timescale, frag_ms), samples, 1, seq, base, None, last_dts)
}

macro_rules! write_step_h {
    ($name:ident, $k:expr) => {
        h!($name, 8, {
            let dts: [u64; $k] = kani::any();
            let mut i = 1;
            while i < $k {
                kani::assume(dts[i - 1] <= dts[i]);
                i += 1;
            }
            // representation invariant of reachable states: last_dts = DTS of the last accepted write
            // (>= every queued DTS); None only before any write
            let last: Option<u64> = kani::any();
            if $k > 0 {
                kani::assume(last == Some(dts[$k - 1]));
            }
            let mut m = state::<$k>(dts, kani::any(), kani::any(), last, 90000, 2000);
            let before = fh::digest(&m);
            let (p, d, sync): (u64, u64, bool) = (kani::any(), kani::any(), kani::any());
            let r = m.write_video(p, d, &[0x77, 0x78], sync);
            let after = fh::digest(&m);
            let must_reject = match last { Some(l) => d < l, None => false };
            match &r {
                Ok(()) => {
                    assert!(!must_reject, "accepted a decode time below the previous one");
                    assert!(after.queued == $k + 1, "exactly one sample queued");
                    let s = after.last_sample.unwrap();
                    assert!(s.pts == p && s.dts == d && s.is_sync == sync && s.len == 2 && s.first == 0x77, "queued sample = submitted sample");
                    assert!(after.last_dts == Some(d));
                    assert!(after.sequence_number == before.sequence_number && after.base_media_decode_time == before.base_media_decode_time, "write does not touch numbering or base time");
                    if $k > 0 {
                        assert!(after.first_sample == before.first_sample, "earlier samples untouched");
                    }
                }
                Err(FragmentedError::NonMonotonicDts { prev_dts, curr_dts }) => {
                    assert!(must_reject, "rejected although the decode time did not go backwards");
                    assert!(Some(*prev_dts) == last && *curr_dts == d, "error names the offending values");
                    assert!(before == after, "a rejected write queues nothing and changes nothing");
                }
            }
            crate::vcover!(r.is_ok() && last == Some(d), "accepted equal DTS");
            crate::vcover!(r.is_err(), "rejected");
            core::mem::forget((m, r));
        });
    };
}
//@ prop=C10 tier=quick cost=7 fns="fragmented::FragmentedMuxer::write_video" bound="empty queue, any last_dts (incl. None), any pts/dts/sync" unwind=8
write_step_h!(c10_write_step_k0, 0);
//@ prop=C10 tier=quick cost=10 fns="fragmented::FragmentedMuxer::write_video" bound="1 queued sample, any state scalars, any pts/dts/sync" unwind=8
write_step_h!(c10_write_step_k1, 1);
//@ prop=C10 tier=thorough cost=12 fns="fragmented::FragmentedMuxer::write_video" bound="2 queued samples, any state scalars, any pts/dts/sync" unwind=8
write_step_h!(c10_write_step_k2, 2);

//@ prop=C10 tier=quick cost=7 fns="fragmented::FragmentedMuxer::flush_segment,ready_to_flush,current_fragment_duration_ms" bound="empty queue, any state scalars" unwind=8
h!(c10_flush_empty, 8, {
    let mut m = state::<0>([], kani::any(), kani::any(), kani::any(), 90000, kani::any());
    let before = fh::digest(&m);
    let r = m.flush_segment();
    assert!(r.is_none(), "flushing an empty queue yields no segment");
    assert!(fh::digest(&m) == before, "and consumes no sequence number / changes nothing");
    assert!(!m.ready_to_flush() && m.current_fragment_duration_ms() == 0);
    crate::vcover!(true, "reached");
    core::mem::forget(m);
});

macro_rules! flush_step_h {
    ($name:ident, $k:expr, $total:expr, $timing:expr) => {
        h!($name, 8, {
            let dts: [u64; $k] = kani::any();
            let mut i = 0;
            while i < $k {
                kani::assume(dts[i] < (1 << 62));
                if i > 0 {
                    kani::assume(dts[i - 1] <= dts[i] && dts[i] - dts[i - 1] <= u32::MAX as u64);
                }
                i += 1;
            }
            let seq: u32 = kani::any();
            kani::assume(seq < u32::MAX);
            let base: u64 = kani::any();
            let mut m = state::<$k>(dts, seq, base, Some(dts[$k - 1]), 90000, 2000);
            let r = m.flush_segment();
            let after = fh::digest(&m);
            let seg = r.expect("non-empty queue yields a segment");
            let v = snap::<$total>(&seg);
            let sync: [bool; $k] = core::array::from_fn(|i| i == 0);
            let tags: [u8; $k] = core::array::from_fn(|i| 0x20 + i as u8);
            check_segment::<$k>(&v, seq, base, &dts, &dts, &sync, &tags, true);
            assert!(after.queued == 0, "queue emptied: nothing can be emitted twice");
            assert!(after.sequence_number == seq + 1, "sequence numbers advance by one per emitted segment");
            assert!(after.last_dts == Some(dts[$k - 1]), "monotonicity floor kept across the flush");
            if $timing {
                // C11 cross-segment clauses
                assert!(after.base_media_decode_time >= dts[$k - 1], "next base time not before the last sample's decode time");
                if $k >= 2 && dts[1] - dts[0] == dts[$k - 1] - dts[$k - 2] && ($k < 3 || dts[2] - dts[1] == dts[1] - dts[0]) {
                    let d = dts[1] - dts[0];
                    assert!(after.base_media_decode_time == dts[$k - 1] + d, "constant spacing: next base time = last DTS + frame interval");
                }
            }
            crate::vcover!($k < 2 || dts[1] > dts[0], "distinct DTS");
            core::mem::forget((m, seg));
        });
    };
}
//@ prop=C10 tier=quick cost=350 fns="fragmented::FragmentedMuxer::flush_segment,build_media_segment" bound="1 queued sample, any dts < 2^62, any seq < u32::MAX, any base" unwind=8 covers_optional="distinct" timeout=1200
flush_step_h!(c10_flush_step_k1, 1, 114, false);
//@ prop=C10 tier=thorough cost=600 fns="fragmented::FragmentedMuxer::flush_segment,build_media_segment" bound="2 queued samples, non-decreasing dts < 2^62 with 32-bit gaps, any seq/base" unwind=8 timeout=1400 mem=22
flush_step_h!(c10_flush_step_k2, 2, 130, false);
//@ prop=C11 tier=thorough cost=600 fns="fragmented::FragmentedMuxer::flush_segment" bound="2 queued samples: base-time update clauses" unwind=8 timeout=1400 mem=22
flush_step_h!(c11_flush_base_k2, 2, 130, true);
//@ prop=C11 tier=thorough cost=600 fns="fragmented::FragmentedMuxer::flush_segment" bound="3 queued samples: base-time update clauses" unwind=8 timeout=3400 mem=34
flush_step_h!(c11_flush_base_k3, 3, 149, true);
//@ prop=C11 tier=quick cost=350 fns="fragmented::FragmentedMuxer::flush_segment" bound="1 queued sample: base-time update clauses" unwind=8 covers_optional="distinct" timeout=1200
flush_step_h!(c11_flush_base_k1, 1, 114, true);

// base time never moves backwards across a flush, given the reachable-state invariant
// base <= first queued DTS (holds initially: base 0; re-established by the clause above since
// every later write has dts >= last_dts... only when base' <= next dts — which is the finding below)
//@ prop=C11 tier=quick cost=120 fns="fragmented::FragmentedMuxer::flush_segment" bound="2 queued samples, base <= dts[0]" unwind=8 timeout=900
h!(c11_base_monotone_k2, 8, {
    let dts: [u64; 2] = kani::any();
    kani::assume(dts[0] <= dts[1] && dts[1] < (1 << 62) && dts[1] - dts[0] <= u32::MAX as u64);
    let base: u64 = kani::any();
    kani::assume(base <= dts[0]);
    let mut m = state::<2>(dts, 1, base, Some(dts[1]), 90000, 2000);
    let r = m.flush_segment();
    assert!(fh::digest(&m).base_media_decode_time >= base, "base decode time never moves backwards");
    crate::vcover!(true, "reached");
    core::mem::forget((m, r));
});

// ---- readiness predicate -------------------------------------------------------------
//@ prop=C10 tier=quick cost=302 fns="fragmented::FragmentedMuxer::ready_to_flush,current_fragment_duration_ms" bound="2 queued samples with span < 2^22 ticks (46 s at 90 kHz; the 64-bit divider does not finish beyond), any target duration, timescale 90000" unwind=8
h!(c10_ready_k2, 8, {
    let dts: [u64; 2] = kani::any();
    kani::assume(dts[0] <= dts[1] && dts[1] - dts[0] < (1 << 22));
    let target: u32 = kani::any();
    let m = state::<2>(dts, 1, 0, Some(dts[1]), 90000, target);
    let before = fh::digest(&m);
    // floor(span * 1000 / 90000) = floor(span / 90), stated without a division
    let span = (dts[1] - dts[0]) as u128;
    let got = m.current_fragment_duration_ms() as u128;
    assert!(got * 90 <= span && span < (got + 1) * 90, "fragment duration in ms");
    assert!(m.ready_to_flush() == (got >= target as u128), "ready iff >= 2 samples and span >= target");
    assert!(fh::digest(&m) == before, "queries do not change the state");
    crate::vcover!(m.ready_to_flush(), "ready");
    crate::vcover!(!m.ready_to_flush(), "not ready");
    core::mem::forget(m);
});
//@ prop=C10 tier=quick cost=5 fns="fragmented::FragmentedMuxer::ready_to_flush,current_fragment_duration_ms" bound="1 queued sample, any scalars" unwind=8
h!(c10_ready_k1, 8, {
    let m = state::<1>([kani::any()], kani::any(), kani::any(), kani::any(), kani::any(), kani::any());
    assert!(!m.ready_to_flush() && m.current_fragment_duration_ms() == 0, "a lone sample is never ready");
    crate::vcover!(true, "reached");
    core::mem::forget(m);
});

// ---- init segment: cached, stable, state-neutral ----------------------------------------
//@ prop=C11 tier=quick cost=203 fns="fragmented::FragmentedMuxer::init_segment,build_moov_fmp4,build_trak_fmp4,build_stsd_fmp4" bound="H.264 config (SPS 4 / PPS 2 symbolic bytes, any dims), 1 queued sample, any scalars: two calls" unwind=640 timeout=1500 mem=20
h!(c11_init_stable, 640, {
    let mut c = cfg(90000, 2000);
    c.width = kani::any();
    c.height = kani::any();
    c.sps = kani::any::<[u8; 4]>().to_vec();
    c.pps = kani::any::<[u8; 2]>().to_vec();
    let samples = [fh::mk_sample(kani::any(), kani::any(), data(1, 1), true)];
    let mut m = fh::muxer_with_state::<1>(c, samples, 1, kani::any(), kani::any(), None, kani::any());
    let d0 = fh::digest(&m);
    let a = m.init_segment();
    let d1 = fh::digest(&m);
    let b = m.init_segment();
    let d2 = fh::digest(&m);
    assert!(a.len() == b.len(), "same length on every request");
    let n = a.len();
    let sa = snap::<636>(&a);
    let sb = snap::<636>(&b);
    assert!(sa == sb, "byte-identical on every request");
    assert!(d1.queued == d0.queued && d1.sequence_number == d0.sequence_number && d1.base_media_decode_time == d0.base_media_decode_time && d1.last_dts == d0.last_dts, "init_segment does not disturb muxing state");
    assert!(d2 == d1);
    crate::vcover!(n > 0, "reached");
    core::mem::forget((m, a, b));
});
