//! Minimal strict ISO-BMFF reader used ONLY when a solver counterexample is replayed
//! natively (Kani concrete playback): the stubs of the verification run are not applied
//! there, so the real moov is produced and this reader recovers the sample tables from it.
//! Plain Rust with Vec/loops: never executed symbolically (guarded by `fin::replay_mode()`).

#[derive(Debug, Default, Clone)]
pub struct Track {
    pub handler: [u8; 4],
    pub track_id: u32,
    pub mdhd_duration: u32,
    pub stts: Vec<(u32, u32)>,
    pub ctts: Option<Vec<(u32, i32)>>,
    pub stsc: Vec<(u32, u32, u32)>,
    pub stsz: Vec<u32>,
    pub stco: Vec<u32>,
    pub stss: Option<Vec<u32>>,
    /// an `edts` box is present in the trak (this oracle does not interpret edit lists)
    pub has_edts: bool,
}

#[derive(Debug, Default, Clone)]
pub struct Parsed {
    /// top-level boxes: (type, offset, size)
    pub top: Vec<([u8; 4], usize, usize)>,
    pub tracks: Vec<Track>,
    pub has_udta: bool,
}

fn be32(v: &[u8], o: usize) -> Result<u32, String> {
    if o + 4 > v.len() {
        return Err(format!("read past end at {}", o));
    }
    Ok(u32::from_be_bytes([v[o], v[o + 1], v[o + 2], v[o + 3]]))
}

/// children of [a, b): must tile exactly
fn children(v: &[u8], a: usize, b: usize) -> Result<Vec<([u8; 4], usize, usize)>, String> {
    let mut out = Vec::new();
    let mut o = a;
    while o < b {
        if o + 8 > b {
            return Err(format!("box header overruns parent at {}", o));
        }
        let sz = be32(v, o)? as usize;
        if sz < 8 || o + sz > b {
            return Err(format!("box size {} at {} overruns parent end {}", sz, o, b));
        }
        out.push(([v[o + 4], v[o + 5], v[o + 6], v[o + 7]], o, sz));
        o += sz;
    }
    Ok(out)
}

fn find<'a>(kids: &'a [([u8; 4], usize, usize)], t: &[u8; 4]) -> Result<&'a ([u8; 4], usize, usize), String> {
    let hits: Vec<_> = kids.iter().filter(|k| &k.0 == t).collect();
    if hits.len() != 1 {
        return Err(format!("expected exactly one {:?} box, found {}", core::str::from_utf8(t), hits.len()));
    }
    Ok(hits[0])
}

fn parse_trak(v: &[u8], o: usize, sz: usize) -> Result<Track, String> {
    let mut t = Track::default();
    let kids = children(v, o + 8, o + sz)?;
    t.has_edts = kids.iter().any(|k| &k.0 == b"edts");
    let tkhd = find(&kids, b"tkhd")?;
    t.track_id = be32(v, tkhd.1 + 20)?;
    let mdia = find(&kids, b"mdia")?;
    let mk = children(v, mdia.1 + 8, mdia.1 + mdia.2)?;
    let mdhd = find(&mk, b"mdhd")?;
    t.mdhd_duration = be32(v, mdhd.1 + 24)?;
    let hdlr = find(&mk, b"hdlr")?;
    t.handler = [v[hdlr.1 + 16], v[hdlr.1 + 17], v[hdlr.1 + 18], v[hdlr.1 + 19]];
    let minf = find(&mk, b"minf")?;
    let ik = children(v, minf.1 + 8, minf.1 + minf.2)?;
    find(&ik, b"dinf")?;
    let stbl = find(&ik, b"stbl")?;
    let sk = children(v, stbl.1 + 8, stbl.1 + stbl.2)?;
    find(&sk, b"stsd")?;
    let stts = find(&sk, b"stts")?;
    let n = be32(v, stts.1 + 12)? as usize;
    if stts.2 != 16 + 8 * n {
        return Err("stts size does not match its entry count".into());
    }
    for i in 0..n {
        t.stts.push((be32(v, stts.1 + 16 + 8 * i)?, be32(v, stts.1 + 20 + 8 * i)?));
    }
    if let Some(c) = sk.iter().find(|k| &k.0 == b"ctts") {
        let n = be32(v, c.1 + 12)? as usize;
        if c.2 != 16 + 8 * n {
            return Err("ctts size does not match its entry count".into());
        }
        let mut e = Vec::new();
        for i in 0..n {
            e.push((be32(v, c.1 + 16 + 8 * i)?, be32(v, c.1 + 20 + 8 * i)? as i32));
        }
        t.ctts = Some(e);
    }
    let stsc = find(&sk, b"stsc")?;
    let n = be32(v, stsc.1 + 12)? as usize;
    if stsc.2 != 16 + 12 * n {
        return Err("stsc size does not match its entry count".into());
    }
    for i in 0..n {
        t.stsc.push((be32(v, stsc.1 + 16 + 12 * i)?, be32(v, stsc.1 + 20 + 12 * i)?, be32(v, stsc.1 + 24 + 12 * i)?));
    }
    let stsz = find(&sk, b"stsz")?;
    let n = be32(v, stsz.1 + 16)? as usize;
    if stsz.2 != 20 + 4 * n {
        return Err("stsz size does not match its sample count".into());
    }
    for i in 0..n {
        t.stsz.push(be32(v, stsz.1 + 20 + 4 * i)?);
    }
    let stco = find(&sk, b"stco")?;
    let n = be32(v, stco.1 + 12)? as usize;
    if stco.2 != 16 + 4 * n {
        return Err("stco size does not match its entry count".into());
    }
    for i in 0..n {
        t.stco.push(be32(v, stco.1 + 16 + 4 * i)?);
    }
    if let Some(s) = sk.iter().find(|k| &k.0 == b"stss") {
        let n = be32(v, s.1 + 12)? as usize;
        let mut e = Vec::new();
        for i in 0..n {
            e.push(be32(v, s.1 + 16 + 4 * i)?);
        }
        t.stss = Some(e);
    }
    Ok(t)
}

pub fn parse(file: &[u8]) -> Result<Parsed, String> {
    let mut p = Parsed::default();
    p.top = children(file, 0, file.len())?;
    let moov = find(&p.top, b"moov")?;
    let kids = children(file, moov.1 + 8, moov.1 + moov.2)?;
    find(&kids, b"mvhd")?;
    p.has_udta = kids.iter().any(|k| &k.0 == b"udta");
    for k in kids.iter().filter(|k| &k.0 == b"trak") {
        p.tracks.push(parse_trak(file, k.1, k.2)?);
    }
    Ok(p)
}

impl Track {
    /// absolute byte range of every sample, resolved through stsc / stco / stsz
    pub fn sample_ranges(&self) -> Result<Vec<(usize, usize)>, String> {
        let mut out = Vec::new();
        let mut sample = 0usize;
        for (ci, &off) in self.stco.iter().enumerate() {
            let chunk_no = ci as u32 + 1;
            // samples per chunk for this chunk: last stsc entry whose first_chunk <= chunk_no
            let mut spc = 0u32;
            for &(first, n, _) in &self.stsc {
                if first <= chunk_no {
                    spc = n;
                }
            }
            let mut pos = off as usize;
            for _ in 0..spc {
                if sample >= self.stsz.len() {
                    return Err("chunk table describes more samples than stsz".into());
                }
                let sz = self.stsz[sample] as usize;
                out.push((pos, pos + sz));
                pos += sz;
                sample += 1;
            }
        }
        if sample != self.stsz.len() {
            return Err(format!("chunk table describes {} samples, stsz {}", sample, self.stsz.len()));
        }
        Ok(out)
    }
    pub fn durations(&self) -> Vec<u32> {
        let mut d = Vec::new();
        for &(n, v) in &self.stts {
            for _ in 0..n {
                d.push(v);
            }
        }
        d
    }
    pub fn cts(&self) -> Option<Vec<i32>> {
        self.ctts.as_ref().map(|c| {
            let mut d = Vec::new();
            for &(n, v) in c {
                for _ in 0..n {
                    d.push(v);
                }
            }
            d
        })
    }
}
