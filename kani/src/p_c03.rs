//! C03 — decode and composition timing in the file equals the submitted timestamps.
//! Kernel chain: API tick conversion -> writer duration back-patching ->
//! SampleTables::from_samples -> stts/ctts run-length serialisation -> mdhd duration.
use crate::bx::*;
use crate::stubs::*;
use muxide::api::{MuxerBuilder, VideoCodec};
use muxide::verif_hooks::mp4::verif as mp4h;
use muxide::verif_hooks::mp4::Mp4Writer;

macro_rules! h {
    ($name:ident, $unw:expr, $body:block) => {
        #[kani::proof]
        #[kani::unwind($unw)]
        #[kani::stub(muxide::invariant_ppt::__assert_invariant_impl, crate::stubs::assert_invariant_stub)]
        pub fn $name() {
            $body;
        }
    };
}

fn data(n: usize) -> Vec<u8> {
    let mut v = Vec::with_capacity(n);
    let mut i = 0;
    while i < n {
        v.push(0x11);
        i += 1;
    }
    v
}

// ---------------------------------------------------------------------------
// (iii) SampleTables::from_samples — durations, offsets, flags from the queue
// ---------------------------------------------------------------------------
macro_rules! from_samples_h {
    ($name:ident, $n:expr) => {
        h!($name, 8, {
            let pts: [u64; $n] = kani::any();
            let dts: [u64; $n] = kani::any();
            let dur: [Option<u32>; $n] = kani::any();
            let key: [bool; $n] = kani::any();
            let fallback: Option<u32> = kani::any();
            let samples: [_; $n] = core::array::from_fn(|i| mp4h::mk_sample(pts[i], dts[i], data(i + 1), key[i], dur[i]));
            // composition offsets must fit the signed 32-bit ctts field and ticks stay below 2^63
            // (C16 / C12 decide what happens outside)
            let mut i = 0;
            while i < $n {
                kani::assume(pts[i] < (1u64 << 63) && dts[i] < (1u64 << 63));
                let off = pts[i] as i128 - dts[i] as i128;
                kani::assume(off >= i32::MIN as i128 && off <= i32::MAX as i128);
                i += 1;
            }
            let t = mp4h::tables_from_samples(samples, Vec::new(), 1, fallback);
            let d = mp4h::t_durations(&t);
            let c = mp4h::t_cts_offsets(&t);
            assert!(d.len() == $n && c.len() == $n);
            let mut any_off = false;
            let mut total: u64 = 0;
            let mut i = 0;
            while i < $n {
                let want = match dur[i] {
                    Some(x) => x,
                    None => {
                        if i == $n - 1 {
                            fallback.unwrap_or(1)
                        } else {
                            1
                        }
                    }
                };
                assert!(d[i] == want, "sample duration = stored duration, or the remembered last delta for the final sample");
                assert!(c[i] as i128 == pts[i] as i128 - dts[i] as i128, "composition offset = pts - dts");
                any_off |= pts[i] != dts[i];
                total += want as u64;
                i += 1;
            }
            assert!(mp4h::t_has_bframes(&t) == any_off, "offset table flagged iff some offset is non-zero");
            assert!(mp4h::t_total_duration(&t) == total, "total duration = sum of sample durations");
            crate::vcover!(any_off, "reordered sample present");
            crate::vcover!(!any_off, "no reordering");
            crate::vcover!(dur[$n - 1].is_none() && fallback.is_some(), "fallback duration used");
            core::mem::forget(t);
        });
    };
}
//@ prop=C03 tier=quick cost=60 fns="muxer::mp4::SampleTables::from_samples,total_duration" bound="2 samples, all u64 pts/dts with |pts-dts| < 2^31, all durations/fallbacks" unwind=8
from_samples_h!(c03_from_samples_2, 2);
//@ prop=C03 tier=quick cost=90 fns="muxer::mp4::SampleTables::from_samples,total_duration" bound="3 samples, all u64 pts/dts with |pts-dts| < 2^31, all durations/fallbacks" unwind=8
from_samples_h!(c03_from_samples_3, 3);
//@ prop=C03 tier=thorough cost=16 fns="muxer::mp4::SampleTables::from_samples,total_duration" bound="1 sample" unwind=8
from_samples_h!(c03_from_samples_1, 1);

// ---------------------------------------------------------------------------
// (iv) stts / ctts: run-length decoding returns exactly the input vector
// ---------------------------------------------------------------------------
/// Decode a (count, value) run-length table from a snapshot; returns the i-th value.
fn rle_value(v: &[u8], entries: usize, first: usize, i: usize) -> Option<u32> {
    let mut seen = 0usize;
    let mut e = 0usize;
    while e < entries {
        let cnt = be32(v, first + 8 * e) as usize;
        if i < seen + cnt {
            return Some(be32(v, first + 8 * e + 4));
        }
        seen += cnt;
        e += 1;
    }
    None
}
fn rle_total(v: &[u8], entries: usize, first: usize) -> usize {
    let mut seen = 0usize;
    let mut e = 0usize;
    while e < entries {
        seen += be32(v, first + 8 * e) as usize;
        e += 1;
    }
    seen
}

macro_rules! stts_h {
    ($name:ident, $n:expr, $unw:expr) => {
        h!($name, $unw, {
            let d: [u32; $n] = kani::any();
            let out = mp4h::build_stts_box(&d);
            // entries = number of runs (reference count, independent of the builder's loop)
            let mut runs = 0usize;
            let mut i = 0;
            while i < $n {
                if i == 0 || d[i] != d[i - 1] {
                    runs += 1;
                }
                i += 1;
            }
            assert!(out.len() == 16 + 8 * runs, "box length = header + one entry per run");
            let mut a = [0u8; 16 + 8 * $n];
            let mut k = 0;
            while k < 16 + 8 * $n {
                if k < out.len() {
                    a[k] = out[k];
                }
                k += 1;
            }
            let v = &a[..];
            assert!(be32(v, 0) as usize == out.len() && is_type(v, 4, b"stts") && be32(v, 8) == 0);
            assert!(be32(v, 12) as usize == runs, "entry_count");
            assert!(rle_total(v, runs, 16) == $n, "sample counts add up");
            let mut i = 0;
            while i < $n {
                assert!(rle_value(v, runs, 16, i) == Some(d[i]), "decoded delta equals the input duration");
                i += 1;
            }
            crate::vcover!(runs == 1 && $n > 1, "one run");
            crate::vcover!(runs == $n, "all different");
        });
    };
}
//@ prop=C03 tier=quick cost=232 fns="muxer::mp4::build_stts_box" bound="3 durations, all u32 values" unwind=42
stts_h!(c03_stts_3, 3, 42);
//@ prop=C03 tier=thorough cost=100 fns="muxer::mp4::build_stts_box" bound="4 durations, all u32 values" unwind=50
stts_h!(c03_stts_4, 4, 50);
//@ prop=C03 tier=thorough cost=30 fns="muxer::mp4::build_stts_box" bound="2 durations, all u32 values" unwind=34
stts_h!(c03_stts_2, 2, 34);

macro_rules! ctts_h {
    ($name:ident, $n:expr, $unw:expr) => {
        h!($name, $unw, {
            let d: [i32; $n] = kani::any();
            let out = mp4h::build_ctts_box(&d);
            let mut runs = 0usize;
            let mut i = 0;
            while i < $n {
                if i == 0 || d[i] != d[i - 1] {
                    runs += 1;
                }
                i += 1;
            }
            assert!(out.len() == 16 + 8 * runs);
            let mut a = [0u8; 16 + 8 * $n];
            let mut k = 0;
            while k < 16 + 8 * $n {
                if k < out.len() {
                    a[k] = out[k];
                }
                k += 1;
            }
            let v = &a[..];
            assert!(be32(v, 0) as usize == out.len() && is_type(v, 4, b"ctts"));
            assert!(be32(v, 8) == 0x0100_0000, "version 1 (signed offsets)");
            assert!(be32(v, 12) as usize == runs);
            assert!(rle_total(v, runs, 16) == $n);
            let mut i = 0;
            while i < $n {
                assert!(rle_value(v, runs, 16, i) == Some(d[i] as u32), "decoded offset equals the input offset");
                i += 1;
            }
            crate::vcover!(d[0] < 0, "negative offset");
        });
    };
}
//@ prop=C03 tier=quick cost=200 fns="muxer::mp4::build_ctts_box" bound="3 offsets, all i32 values" unwind=42
ctts_h!(c03_ctts_3, 3, 42);
//@ prop=C03 tier=thorough cost=30 fns="muxer::mp4::build_ctts_box" bound="2 offsets, all i32 values" unwind=34
ctts_h!(c03_ctts_2, 2, 34);

//@ prop=C03 tier=quick cost=32 fns="muxer::mp4::build_stts_box,build_ctts_box" bound="empty tables" unwind=2
h!(c03_rle_empty, 2, {
    let e: [u32; 0] = [];
    let s = snap::<16>(&mp4h::build_stts_box(&e));
    assert!(box_is(&s, 0, 16, b"stts") && be32(&s, 12) == 0);
    let e2: [i32; 0] = [];
    let c = snap::<16>(&mp4h::build_ctts_box(&e2));
    assert!(box_is(&c, 0, 16, b"ctts") && be32(&c, 12) == 0);
    crate::vcover!(true, "reached");
});

// ---------------------------------------------------------------------------
// (ii) writer: the second accepted sample fixes the first one's duration
// ---------------------------------------------------------------------------
struct NullSink;
impl std::io::Write for NullSink {
    fn write(&mut self, b: &[u8]) -> std::io::Result<usize> {
        Ok(b.len())
    }
    fn flush(&mut self) -> std::io::Result<()> {
        Ok(())
    }
}

//@ prop=C03 tier=quick cost=22 fns="muxer::mp4::Mp4Writer::write_video_sample_with_dts" bound="one queued VP9 sample at any dts0, second sample with any pts/dts (all u64), 2-byte payload" unwind=6
h!(c03_writer_video_step, 6, {
    let dts0: u64 = kani::any();
    let pts0: u64 = kani::any();
    let w0 = mp4h::writer_with_state::<NullSink, 1, 0>(
        NullSink, VideoCodec::Vp9, [mp4h::mk_sample(pts0, dts0, data(2), true, None)], None, [],
        Some(dts0), None, None, None, None, false, 0);
    let mut w = w0;
    let (pts1, dts1): (u64, u64) = (kani::any(), kani::any());
    let r = w.write_video_sample_with_dts(pts1, dts1, &[7u8, 8], false);
    let dg = mp4h::writer_digest(&w);
    let s0 = mp4h::video_sample_digest(&w, 0).unwrap();
    match &r {
        Ok(()) => {
            assert!(dts1 > dts0 && dts1 - dts0 <= u32::MAX as u64, "accepted only for a strictly larger DTS whose gap fits 32 bits");
            assert!(dg.video_count == 2);
            assert!(s0.duration == Some((dts1 - dts0) as u32), "previous sample's duration = DTS difference");
            assert!(dg.video_last_delta == Some((dts1 - dts0) as u32), "last delta remembered for the final sample");
            let s1 = dg.last_video.unwrap();
            assert!(s1.pts == pts1 && s1.dts == dts1 && s1.duration.is_none() && !s1.is_keyframe && s1.len == 2);
            assert!(dg.video_prev_pts == Some(dts1));
        }
        Err(_) => {
            assert!(dts1 <= dts0 || dts1 - dts0 > u32::MAX as u64, "rejected only when not increasing or gap too large");
            assert!(dg.video_count == 1 && s0.duration.is_none() && dg.video_last_delta.is_none() && dg.video_prev_pts == Some(dts0), "rejected write leaves no trace");
        }
    }
    crate::vcover!(r.is_ok(), "accepted");
    crate::vcover!(r.is_err() && dts1 > dts0, "rejected for 32-bit gap overflow");
    crate::vcover!(r.is_err() && dts1 <= dts0, "rejected for non-increasing DTS");
    core::mem::forget((w, r));
});

//@ prop=C03 tier=quick cost=16 fns="muxer::mp4::Mp4Writer::write_audio_sample,is_valid_opus_packet" bound="one queued Opus sample at any pts0, second valid 2-byte Opus packet at any pts (all u64)" unwind=6
h!(c03_writer_audio_step, 6, {
    use muxide::api::AudioCodec;
    use muxide::verif_hooks::mp4::Mp4AudioTrack;
    let p0: u64 = kani::any();
    let mut w = mp4h::writer_with_state::<NullSink, 0, 1>(
        NullSink, VideoCodec::Vp9, [], Some(Mp4AudioTrack { sample_rate: 48000, channels: 2, codec: AudioCodec::Opus }),
        [mp4h::mk_sample(p0, p0, data(2), false, None)], None, None, Some(p0), None, None, false, 0);
    let p1: u64 = kani::any();
    let r = w.write_audio_sample(p1, &[0x08u8, 0x01]);
    let dg = mp4h::writer_digest(&w);
    let s0 = mp4h::audio_sample_digest(&w, 0).unwrap();
    match &r {
        Ok(()) => {
            assert!(p1 >= p0 && p1 - p0 <= u32::MAX as u64);
            assert!(dg.audio_count == 2 && s0.duration == Some((p1 - p0) as u32) && dg.audio_last_delta == Some((p1 - p0) as u32));
            let s1 = dg.last_audio.unwrap();
            assert!(s1.pts == p1 && s1.dts == p1 && s1.len == 2 && s1.first == 0x08);
        }
        Err(_) => {
            assert!(p1 < p0 || p1 - p0 > u32::MAX as u64);
            assert!(dg.audio_count == 1 && s0.duration.is_none() && dg.audio_last_delta.is_none());
        }
    }
    crate::vcover!(r.is_ok() && p1 == p0, "accepted with equal timestamps");
    crate::vcover!(r.is_err(), "rejected");
    core::mem::forget((w, r));
});

// ---------------------------------------------------------------------------
// (i) API: ticks handed to the writer = round(t * 90000), from the absolute value
// ---------------------------------------------------------------------------
/// |tick - t*90000| <= 1/2 decided without a second floating-point rounding:
/// tick is an integer < 2^53, so tick +- 0.5 is exact in f64.
fn within_half(tick: u64, t: f64) -> bool {
    let x = t * 90000.0; // the same single product the implementation forms
    let k = tick as f64;
    x >= k - 0.5 && x <= k + 0.5
}

//@ prop=C03 tier=quick cost=67 fns="api::Muxer::write_video,Mp4Writer::write_video_sample_with_dts,extract_vp9_config" bound="first frame: any f64 pts (all bit patterns), concrete valid 10-byte VP9 keyframe; accepted => tick within 1/2 of t*90000 for t < 2^40 s" unwind=12 timeout=900
h!(c03_api_tick_first, 12, {
    let mut m = MuxerBuilder::new(NullSink).video(VideoCodec::Vp9, 64, 64, 30.0).build().unwrap();
    let t: f64 = kani::any();
    let frame = [0x49u8, 0x83, 0x42, 0x00, 0x00, 0x3f, 0x3f, 0x00, 0x00, 0x00];
    let r = m.write_video(t, &frame, true);
    if r.is_ok() {
        let w = muxide::api::verif::writer(&m);
        let s = mp4h::video_sample_digest(w, 0).unwrap();
        assert!(t.is_finite() && t >= 0.0, "accepted only finite non-negative time");
        if t < 1.0e12 {
            assert!(within_half(s.pts, t), "tick = t*90000 rounded to nearest");
            assert!(s.dts == s.pts, "no explicit DTS: decode time = presentation time");
        }
    }
    crate::vcover!(r.is_ok() && t > 1.0 && t < 2.0, "accepted fractional time");
    crate::vcover!(r.is_err(), "rejected time");
    core::mem::forget((m, r));
});

// ---------------------------------------------------------------------------
// (vi) finalize hands each track's OWN remembered last delta to its final sample
//      (both layouts; the moov builder is replaced by the recording stand-in)
// ---------------------------------------------------------------------------
fn fallback_body(fast_start: bool) {
    use crate::fin::*;
    use muxide::verif_hooks::mp4::verif as m;
    let vlast: Option<u32> = kani::any();
    let alast: Option<u32> = kani::any();
    let (vp, ap): (u64, u64) = (kani::any(), kani::any());
    kani::assume(vp < (1 << 31) && ap < (1 << 31));
    let c = carrier(8);
    // two samples per track: the first has its duration, the final one has none yet
    let video = [m::mk_sample(0, 0, payload(vtag(0), 2), true, Some(700)), m::mk_sample(vp, 700, payload(vtag(1), 3), false, None)];
    let audio = [m::mk_sample(0, 0, payload(atag(0), 1), false, Some(900)), m::mk_sample(ap, ap, payload(atag(1), 2), false, None)];
    let mut w = m::writer_with_state::<RecSink, 2, 2>(RecSink::new(), VideoCodec::Vp9, video, Some(audio_track()), audio,
        Some(700), vlast, Some(ap), alast, None, false, 0);
    let r = w.finalize(&c.track, None, fast_start);
    assert!(r.is_ok());
    if replay_mode() {
        let p = crate::native_mp4::parse(&m::sink(&w).log).expect("well-formed file");
        assert!(p.tracks[0].durations() == vec![700, vlast.unwrap_or(1)], "native replay: final video sample duration is not the video track's last delta");
        assert!(p.tracks[1].durations() == vec![900, alast.unwrap_or(1)], "native replay: final audio sample duration is not the audio track's last delta");
        core::mem::forget((w, r));
        return;
    }
    let mc = final_call(&c);
    assert!(mc.video.n == 2 && mc.audio.n == 2 && mc.audio_present);
    assert!(mc.video.durations[0] == 700 && mc.audio.durations[0] == 900, "stored durations are passed through");
    assert!(mc.video.durations[1] == vlast.unwrap_or(1), "final video sample gets the video track's last delta (or 1)");
    assert!(mc.audio.durations[1] == alast.unwrap_or(1), "final audio sample gets the audio track's last delta (or 1)");
    crate::vcover!(vlast.is_some() && alast.is_some() && vlast != alast, "tracks with different last deltas");
    core::mem::forget((w, r));
}
//@ prop=C03,C08 tier=quick cost=197 fns="Mp4Writer::finalize,finalize_standard,SampleTables::from_samples" bound="standard layout, 2 video + 2 audio samples, any remembered last deltas (Option<u32> each), any final pts < 2^31" unwind=7 stubs="build_moov_box(recording stand-in)" timeout=1400 mem=12
#[kani::proof]
#[kani::unwind(7)]
#[kani::stub(muxide::invariant_ppt::__assert_invariant_impl, crate::stubs::assert_invariant_stub)]
#[kani::stub(muxide::muxer::mp4::build_moov_box, muxide::verif_hooks::mp4::verif::moov_recording_stub)]
pub fn c03_finalize_fallback_std() {
    fallback_body(false);
}
//@ prop=C03,C08 tier=thorough cost=500 fns="Mp4Writer::finalize,finalize_fast_start,SampleTables::from_samples" bound="fast start, 2 video + 2 audio samples, any remembered last deltas, any final pts < 2^31" unwind=7 stubs="build_moov_box(recording stand-in)" timeout=1400 mem=12
#[kani::proof]
#[kani::unwind(7)]
#[kani::stub(muxide::invariant_ppt::__assert_invariant_impl, crate::stubs::assert_invariant_stub)]
#[kani::stub(muxide::muxer::mp4::build_moov_box, muxide::verif_hooks::mp4::verif::moov_recording_stub)]
pub fn c03_finalize_fallback_fast() {
    fallback_body(true);
}
