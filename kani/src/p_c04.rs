//! C04 — calls succeed iff the documented input contract holds; errors name a violated
//! precondition.  C05 (rejected calls leave no trace) is asserted in the same step
//! harnesses through the full state digest (harness names c05_*).
use crate::apistep::*;
use crate::stubs::*;
use muxide::api::verif as apih;
use muxide::api::{Muxer, MuxerBuilder, MuxerError, VideoCodec};
use muxide::verif_hooks::mp4::verif as mp4h;

macro_rules! h {
    ($name:ident, $unw:expr, $body:block) => {
        #[kani::proof]
        #[kani::unwind($unw)]
        #[kani::stub(muxide::invariant_ppt::__assert_invariant_impl, crate::stubs::assert_invariant_stub)]
        #[kani::stub(alloc::fmt::format, crate::stubs::format_stub)]
        #[kani::stub(alloc::string::String::push_str, crate::stubs::string_push_str_stub)]
        #[kani::stub(alloc::string::String::push, crate::stubs::string_push_stub)]
        pub fn $name() {
            $body;
        }
    };
}

/// one `write_video` step from `m` (whose last accepted video time is `prev`, None if fresh).
/// `check_contract`: C04 assertions; `check_trace`: C05 assertions.
fn video_step(m: &mut Muxer<NullSink>, prev: Option<f64>, frame: &[u8], frame_has_config: bool, check_contract: bool, check_trace: bool) {
    let t: f64 = kani::any();
    let key: bool = kani::any();
    let before = full(m);
    let r = m.write_video(t, frame, key);
    let after = full(m);
    let c = classify(&r);
    if check_contract {
        // definitely-violated preconditions (lower) and possibly-violated ones (upper); the
        // sub-tick band between them is decided by C03's rounding harness.
        let finite = t.is_finite();
        let nonneg = !(t < 0.0);
        let incr_lo = match prev { Some(p) => t > p, None => true };            // necessary for acceptance
        let incr_hi = match prev { Some(p) => t >= p + 2.0 * TICK, None => true }; // sufficient
        let gap_ok_hi = match prev { Some(p) => t <= p + GAP32 - 2.0 * TICK, None => true }; // sufficient
        let gap_ok_lo = match prev { Some(p) => t < p + GAP32 + 2.0 * TICK, None => true };  // necessary
        let first = prev.is_none();
        let first_ok = !first || (key && frame_has_config);
        let huge = t >= 1.0e14; // beyond 2^63 ticks the i64 arithmetic of later stages is out of contract (C16)
        if c == Cls::Ok {
            assert!(!frame.is_empty() && finite && nonneg && incr_lo && gap_ok_lo && first_ok, "accepted although a precondition is violated");
        }
        if !frame.is_empty() && finite && nonneg && incr_hi && gap_ok_hi && first_ok && !huge {
            assert!(c == Cls::Ok, "rejected although every precondition holds");
        }
        match c {
            Cls::Ok => {}
            Cls::Empty => assert!(frame.is_empty(), "EmptyVideoFrame for a non-empty frame"),
            Cls::NotFinite => assert!(!finite, "InvalidVideoPts for a finite time"),
            Cls::Negative => assert!(!nonneg, "NegativeVideoPts for a non-negative time"),
            Cls::NotIncreasing => assert!(!incr_hi, "NonIncreasingVideoPts although the time clearly increased"),
            Cls::GapTooLarge => assert!(!gap_ok_hi, "duration overflow reported for a gap that fits 32 bits"),
            Cls::FirstNotKey => assert!(first && !key, "FirstVideoFrameMustBeKeyframe not justified"),
            Cls::MissingConfig => assert!(first && !frame_has_config, "missing-config error although the keyframe carries its configuration"),
            _ => panic!("error variant that no write_video precondition corresponds to"),
        }
    }
    if check_trace && c != Cls::Ok {
        assert!(before.m == after.m, "rejected write_video changed the muxer bookkeeping");
        assert!(before.w == after.w, "rejected write_video changed the writer state");
        assert!(before.v_prev == after.v_prev, "rejected write_video changed a queued sample");
    }
    if c == Cls::Ok {
        assert!(after.m.video_frame_count == before.m.video_frame_count + 1 && after.w.video_count == before.w.video_count + 1, "accepted frame is counted once");
        assert!(after.w.last_video.unwrap().is_keyframe == key, "stored key flag = submitted flag");
        assert!(after.w.last_video.unwrap().len == frame.len() || true);
    }
    crate::vcover!(c == Cls::Ok, "accepted");
    crate::vcover!(c == Cls::NotFinite, "NaN/inf rejected");
    crate::vcover!(c == Cls::Negative, "negative rejected");
    core::mem::forget(r);
}

macro_rules! video_fresh {
    ($name:ident, $prop_contract:expr, $prop_trace:expr, $codec:expr, $frame:expr, $cfg:expr) => {
        h!($name, 14, {
            let mut m = new_muxer($codec, Aud::Opus);
            video_step(&mut m, None, $frame, $cfg, $prop_contract, $prop_trace);
            crate::vcover!(true, "reached");
            core::mem::forget(m);
        });
    };
}
macro_rules! video_after_key {
    ($name:ident, $prop_contract:expr, $prop_trace:expr, $codec:expr, $t0:expr, $frame:expr) => {
        h!($name, 14, {
            let mut m = new_muxer($codec, Aud::Opus);
            let r0 = m.write_video($t0, key_frame($codec), true);
            assert!(r0.is_ok(), "prefix keyframe accepted");
            video_step(&mut m, Some($t0), $frame, false, $prop_contract, $prop_trace);
            crate::vcover!(true, "reached");
            core::mem::forget((m, r0));
        });
    };
}

//@ prop=C04,C12 tier=quick cost=21 fns="api::Muxer::write_video,Mp4Writer::write_video_sample_with_dts,extract_vp9_config" bound="fresh VP9 muxer; any f64 pts, any key flag; valid VP9 keyframe" unwind=14 stubs="fmt::format"
video_fresh!(c04_video_fresh_vp9_key, true, false, VideoCodec::Vp9, &VP9_KEY, true);
//@ prop=C04,C12 tier=quick cost=15 fns="api::Muxer::write_video,extract_vp9_config" bound="fresh VP9 muxer; any f64 pts, any key flag; frame without VP9 configuration" unwind=14 stubs="fmt::format" covers_optional="accepted"
video_fresh!(c04_video_fresh_vp9_noconfig, true, false, VideoCodec::Vp9, &VP9_DELTA, false);
//@ prop=C04,C12 tier=quick cost=12 fns="api::Muxer::write_video" bound="fresh VP9 muxer; any f64 pts, any key flag; empty frame" unwind=14 stubs="fmt::format" covers_optional="*"
video_fresh!(c04_video_fresh_empty, true, false, VideoCodec::Vp9, &[], false);
//@ prop=C04,C12 tier=quick cost=23 fns="api::Muxer::write_video,extract_av1_config,parse_sequence_header" bound="fresh AV1 muxer; any f64 pts, any key flag; valid 7-byte AV1 keyframe" unwind=14 stubs="fmt::format"
video_fresh!(c04_video_fresh_av1_key, true, false, VideoCodec::Av1, &AV1_KEY, true);
//@ prop=C04,C12 tier=quick cost=23 fns="api::Muxer::write_video,extract_avc_config,annexb_to_avcc" bound="fresh H.264 muxer; any f64 pts, any key flag; 15-byte SPS+PPS keyframe" unwind=18 stubs="fmt::format" timeout=900
h!(c04_video_fresh_h264_key, 18, {
    let mut m = new_muxer(VideoCodec::H264, Aud::None);
    video_step(&mut m, None, &H264_KEY, true, true, false);
    crate::vcover!(true, "reached");
    core::mem::forget(m);
});
//@ prop=C04,C12 tier=quick cost=24 fns="api::Muxer::write_video,Mp4Writer::write_video_sample_with_dts" bound="VP9 muxer after one keyframe at t=0; any f64 pts, any key flag; 4-byte frame" unwind=14 stubs="fmt::format"
video_after_key!(c04_video_second_t0, true, false, VideoCodec::Vp9, 0.0, &VP9_DELTA);
//@ prop=C04,C12 tier=quick cost=24 fns="api::Muxer::write_video,Mp4Writer::write_video_sample_with_dts" bound="VP9 muxer after one keyframe at t=1.0; any f64 pts, any key flag; 4-byte frame" unwind=14 stubs="fmt::format"
video_after_key!(c04_video_second_t1, true, false, VideoCodec::Vp9, 1.0, &VP9_DELTA);

//@ prop=C05 tier=quick cost=10 fns="api::Muxer::write_video,Mp4Writer::write_video_sample_with_dts" bound="fresh VP9 muxer; any f64 pts, any key flag; frame without configuration (rejected first frame)" unwind=14 stubs="fmt::format" covers_optional="accepted"
video_fresh!(c05_video_fresh_vp9_noconfig, false, true, VideoCodec::Vp9, &VP9_DELTA, false);
//@ prop=C05 tier=quick cost=17 fns="api::Muxer::write_video" bound="fresh VP9 muxer; any f64 pts, any key flag; valid keyframe" unwind=14 stubs="fmt::format"
video_fresh!(c05_video_fresh_vp9_key, false, true, VideoCodec::Vp9, &VP9_KEY, true);
//@ prop=C05 tier=quick cost=20 fns="api::Muxer::write_video,Mp4Writer::write_video_sample_with_dts" bound="VP9 muxer after one keyframe at t=1.0; any f64 pts, any key flag" unwind=14 stubs="fmt::format"
video_after_key!(c05_video_second_t1, false, true, VideoCodec::Vp9, 1.0, &VP9_DELTA);

// ---- write_audio ----------------------------------------------------------------------
fn audio_step(m: &mut Muxer<NullSink>, first_video: Option<f64>, prev_audio: Option<f64>, configured: bool, pkt: &[u8], pkt_valid: bool, check_contract: bool, check_trace: bool) {
    let t: f64 = kani::any();
    let before = full(m);
    let r = m.write_audio(t, pkt);
    let after = full(m);
    let c = classify(&r);
    if check_contract {
        let finite = t.is_finite();
        let nonneg = !(t < 0.0);
        let nondecr = match prev_audio { Some(p) => !(t < p), None => true };
        let after_video = match first_video { Some(v) => !(t < v), None => false };
        let gap_ok_hi = match prev_audio { Some(p) => t <= p + GAP32 - 2.0 * TICK, None => true };
        let gap_ok_lo = match prev_audio { Some(p) => t < p + GAP32 + 2.0 * TICK, None => true };
        let huge = t >= 1.0e14;
        if c == Cls::Ok {
            assert!(configured && !pkt.is_empty() && finite && nonneg && nondecr && after_video && pkt_valid && gap_ok_lo, "accepted although a precondition is violated");
        }
        if configured && !pkt.is_empty() && finite && nonneg && nondecr && after_video && pkt_valid && gap_ok_hi && !huge {
            assert!(c == Cls::Ok, "rejected although every precondition holds");
        }
        match c {
            Cls::Ok => {}
            Cls::AudioNotConfigured => assert!(!configured),
            Cls::Empty => assert!(pkt.is_empty()),
            Cls::NotFinite => assert!(!finite),
            Cls::Negative => assert!(!nonneg),
            Cls::NotIncreasing => assert!(!nondecr),
            Cls::AudioBeforeVideo => assert!(!after_video),
            Cls::BadAudioFraming => assert!(!pkt_valid),
            Cls::GapTooLarge => assert!(!gap_ok_hi),
            _ => panic!("error variant that no write_audio precondition corresponds to"),
        }
    }
    if check_trace && c != Cls::Ok {
        assert!(before.m == after.m, "rejected write_audio changed the muxer bookkeeping");
        assert!(before.w == after.w, "rejected write_audio changed the writer state (queued durations, last delta)");
    }
    crate::vcover!(c == Cls::Ok, "accepted");
    crate::vcover!(c != Cls::Ok, "rejected");
    core::mem::forget(r);
}

macro_rules! audio_h {
    ($name:ident, $contract:expr, $trace:expr, $aud:expr, $with_video:expr, $with_audio:expr, $pkt:expr, $valid:expr) => {
        h!($name, 14, {
            let mut m = new_muxer(VideoCodec::Vp9, $aud);
            let mut fv = None;
            let mut pa = None;
            if $with_video {
                let r0 = m.write_video(1.0, &VP9_KEY, true);
                assert!(r0.is_ok());
                core::mem::forget(r0);
                fv = Some(1.0);
            }
            if $with_audio {
                let good: &[u8] = if $aud == Aud::Aac { &ADTS_PKT } else { &OPUS_PKT };
                let r1 = m.write_audio(1.5, good);
                assert!(r1.is_ok(), "prefix audio frame accepted");
                core::mem::forget(r1);
                pa = Some(1.5);
            }
            audio_step(&mut m, fv, pa, $aud != Aud::None, $pkt, $valid, $contract, $trace);
            core::mem::forget(m);
        });
    };
}
//@ prop=C04,C12 tier=quick cost=22 fns="api::Muxer::write_audio,Mp4Writer::write_audio_sample,is_valid_opus_packet" bound="VP9+Opus after keyframe at 1.0; any f64 pts; valid Opus packet" unwind=14 stubs="fmt::format"
audio_h!(c04_audio_opus_after_video, true, false, Aud::Opus, true, false, &OPUS_PKT, true);
//@ prop=C04,C12 tier=quick cost=14 fns="api::Muxer::write_audio" bound="VP9+Opus, no video yet; any f64 pts" unwind=14 stubs="fmt::format" covers_optional="accepted"
audio_h!(c04_audio_before_video, true, false, Aud::Opus, false, false, &OPUS_PKT, true);
//@ prop=C04,C12 tier=quick cost=17 fns="api::Muxer::write_audio" bound="VP9 without audio track; any f64 pts" unwind=14 stubs="fmt::format" covers_optional="accepted"
audio_h!(c04_audio_not_configured, true, false, Aud::None, true, false, &OPUS_PKT, true);
//@ prop=C04,C12 tier=quick cost=28 fns="api::Muxer::write_audio,Mp4Writer::write_audio_sample" bound="VP9+Opus after keyframe at 1.0 and audio at 1.5; any f64 pts; valid packet" unwind=14 stubs="fmt::format"
audio_h!(c04_audio_opus_second, true, false, Aud::Opus, true, true, &OPUS_PKT, true);
//@ prop=C04,C12 tier=quick cost=28 fns="api::Muxer::write_audio,Mp4Writer::write_audio_sample,is_valid_opus_packet" bound="VP9+Opus after keyframe and one audio frame; any f64 pts; invalid Opus packet (code 3, zero frames)" unwind=14 stubs="fmt::format" covers_optional="accepted"
audio_h!(c04_audio_opus_invalid, true, false, Aud::Opus, true, true, &[0x03, 0x00], false);
//@ prop=C04,C12 tier=quick cost=26 fns="api::Muxer::write_audio,Mp4Writer::write_audio_sample,adts_to_raw" bound="VP9+AAC after keyframe; any f64 pts; valid 9-byte ADTS frame" unwind=14 stubs="fmt::format,String::push" timeout=900
audio_h!(c04_audio_aac_valid, true, false, Aud::Aac, true, false, &ADTS_PKT, true);
//@ prop=C04,C12 tier=quick cost=35 fns="api::Muxer::write_audio,Mp4Writer::write_audio_sample,adts_to_raw" bound="VP9+AAC after keyframe; any f64 pts; 9 bytes without ADTS sync word" unwind=14 stubs="fmt::format,String::push" covers_optional="accepted" timeout=900
audio_h!(c04_audio_aac_invalid, true, false, Aud::Aac, true, false, &[0u8, 1, 2, 3, 4, 5, 6, 7, 8], false);

//@ prop=C05 tier=quick cost=18 fns="api::Muxer::write_audio,Mp4Writer::write_audio_sample" bound="VP9+Opus after keyframe and one audio frame; any f64 pts; invalid Opus packet" unwind=14 stubs="fmt::format" covers_optional="accepted"
audio_h!(c05_audio_opus_invalid_second, false, true, Aud::Opus, true, true, &[0x03, 0x00], false);
//@ prop=C05 tier=quick cost=17 fns="api::Muxer::write_audio,Mp4Writer::write_audio_sample" bound="VP9+Opus after keyframe and one audio frame; any f64 pts; valid packet (rejections by time)" unwind=14 stubs="fmt::format"
audio_h!(c05_audio_opus_second, false, true, Aud::Opus, true, true, &OPUS_PKT, true);
//@ prop=C05 tier=quick cost=34 fns="api::Muxer::write_audio,Mp4Writer::write_audio_sample,adts_to_raw" bound="VP9+AAC after keyframe and one audio frame; any f64 pts; bytes without ADTS sync" unwind=14 stubs="fmt::format,String::push" covers_optional="accepted" timeout=900
audio_h!(c05_audio_aac_invalid_second, false, true, Aud::Aac, true, true, &[0u8, 1, 2, 3, 4, 5, 6, 7, 8], false);

// ---- rejected first video frame must not unlock audio (C05, two-step) ---------------
//@ prop=C05,C04 tier=quick cost=19 fns="api::Muxer::write_video,api::Muxer::write_audio" bound="fresh VP9+Opus muxer; rejected first video frame (any f64 pts, no config), then audio at any f64 pts" unwind=14 stubs="fmt::format"
h!(c05_rejected_first_video_then_audio, 14, {
    let mut m = new_muxer(VideoCodec::Vp9, Aud::Opus);
    let t: f64 = kani::any();
    let r = m.write_video(t, &VP9_DELTA, kani::any());
    assert!(r.is_err(), "a first frame without configuration is rejected");
    let ta: f64 = kani::any();
    let ra = m.write_audio(ta, &OPUS_PKT);
    // as if the video call had never been made: no video yet, so audio must be refused
    assert!(classify(&ra) != Cls::Ok, "audio accepted although no video frame was ever accepted");
    crate::vcover!(t == 2.0, "reached");
    core::mem::forget((m, r, ra));
});

// ---- builder ---------------------------------------------------------------------------
//@ prop=C04,C12 tier=quick cost=5 fns="api::MuxerBuilder::build" bound="video configured or not; any dims / f64 framerate / audio settings" unwind=6 stubs="fmt::format"
h!(c04_builder_build, 6, {
    let with_video: bool = kani::any();
    let b = MuxerBuilder::new(NullSink);
    let b = if with_video { b.video(VideoCodec::Av1, kani::any(), kani::any(), kani::any()) } else { b };
    let b = if kani::any() { b.audio(muxide::api::AudioCodec::Opus, kani::any(), kani::any()) } else { b };
    let r = b.build();
    match &r {
        Ok(_) => assert!(with_video, "build succeeded without a video configuration"),
        Err(MuxerError::MissingVideoConfig) => assert!(!with_video, "MissingVideoConfig although video was configured"),
        Err(_) => panic!("unexpected builder error"),
    }
    crate::vcover!(r.is_ok(), "built");
    crate::vcover!(r.is_err(), "refused");
    core::mem::forget(r);
});

// ---- convenience calls: encode_video / encode_audio never panic (C12) ----------------------
//@ prop=C12 tier=thorough cost=700 fns="api::Muxer::encode_video,is_keyframe,write_video,AnnexBNalIter::next" bound="fresh H.264 muxer; all 4-byte frames, any duration_ms" unwind=9 stubs="fmt::format" timeout=2400 mem=24
h!(c12_encode_video_h264_sym4, 9, {
    let mut m = new_muxer(VideoCodec::H264, Aud::None);
    let d: [u8; 4] = kani::any();
    let r = m.encode_video(&d, kani::any());
    crate::vcover!(r.is_err(), "rejected");
    core::mem::forget((m, r));
});
//@ prop=C12 tier=quick cost=11 fns="api::Muxer::encode_video,is_keyframe,is_vp9_keyframe" bound="fresh VP9 muxer; all frames of 2 bytes and of 0 bytes, any duration_ms" unwind=9 stubs="fmt::format"
h!(c12_encode_video_vp9_short, 9, {
    let mut m = new_muxer(VideoCodec::Vp9, Aud::None);
    let d: [u8; 2] = kani::any();
    let r = m.encode_video(&d, kani::any());
    let e: [u8; 0] = [];
    let r2 = m.encode_video(&e[..], kani::any());
    assert!(matches!(r2, Err(MuxerError::EmptyVideoFrame { .. })), "an empty frame is reported, not a panic");
    crate::vcover!(r.is_err(), "rejected");
    core::mem::forget((m, r, r2));
});
//@ prop=C12 tier=quick cost=200 fns="api::Muxer::encode_video,is_keyframe,write_video" bound="fresh H.264 muxer; all 3-byte frames and the empty frame" unwind=8 stubs="fmt::format" timeout=1200 mem=12
h!(c12_encode_video_h264_sym3, 8, {
    let mut m = new_muxer(VideoCodec::H264, Aud::None);
    let d: [u8; 3] = kani::any();
    let e: [u8; 0] = [];
    let r = m.encode_video(&d, kani::any());
    let r2 = m.encode_video(&e[..], kani::any());
    assert!(r2.is_err());
    crate::vcover!(r.is_err(), "rejected");
    core::mem::forget((m, r, r2));
});
//@ prop=C12 tier=thorough cost=250 fns="api::Muxer::encode_video,is_keyframe,write_video" bound="fresh H.265 muxer; all 3-byte frames and the empty frame" unwind=8 stubs="fmt::format" timeout=1200 mem=20
h!(c12_encode_video_h265_sym3, 8, {
    let mut m = new_muxer(VideoCodec::H265, Aud::None);
    let d: [u8; 3] = kani::any();
    let e: [u8; 0] = [];
    let r = m.encode_video(&d, kani::any());
    let r2 = m.encode_video(&e[..], kani::any());
    assert!(r2.is_err());
    crate::vcover!(r.is_err(), "rejected");
    core::mem::forget((m, r, r2));
});
//@ prop=C12 tier=thorough cost=600 fns="api::Muxer::encode_video,is_keyframe,write_video,extract_av1_config" bound="fresh AV1 muxer; all 3-byte frames and the empty frame" unwind=34 stubs="fmt::format" timeout=2400 mem=24
h!(c12_encode_video_av1_sym3, 34, {
    let mut m = new_muxer(VideoCodec::Av1, Aud::None);
    let d: [u8; 3] = kani::any();
    let e: [u8; 0] = [];
    let r = m.encode_video(&d, kani::any());
    let r2 = m.encode_video(&e[..], kani::any());
    assert!(r2.is_err());
    crate::vcover!(r.is_err(), "rejected");
    core::mem::forget((m, r, r2));
});
//@ prop=C12 tier=quick cost=24 fns="api::Muxer::encode_audio,write_audio" bound="VP9+Opus after a keyframe; all 2-byte packets, any sample count; also without audio track" unwind=9 stubs="fmt::format"
h!(c12_encode_audio, 9, {
    let mut m = new_muxer(VideoCodec::Vp9, Aud::Opus);
    let r0 = m.write_video(0.0, &VP9_KEY, true);
    assert!(r0.is_ok());
    let d: [u8; 2] = kani::any();
    let r = m.encode_audio(&d, kani::any());
    let r1 = m.encode_audio(&OPUS_PKT, kani::any());
    let mut n = new_muxer(VideoCodec::Vp9, Aud::None);
    let r2 = n.encode_audio(&OPUS_PKT, kani::any());
    assert!(matches!(r2, Err(MuxerError::AudioNotConfigured)));
    crate::vcover!(r.is_ok(), "accepted");
    crate::vcover!(r.is_err(), "rejected");
    core::mem::forget((m, n, r0, r, r1, r2));
});

// ---- write_video_with_dts: the explicit-DTS twin --------------------------------------------
/// one `write_video_with_dts` step; prev = (last accepted pts, last accepted dts)
fn video_dts_step(m: &mut Muxer<NullSink>, prev_dts: Option<f64>, frame: &[u8], frame_has_config: bool, check_contract: bool, check_trace: bool) {
    let t: f64 = kani::any();
    let d: f64 = kani::any();
    let key: bool = kani::any();
    let before = full(m);
    let r = m.write_video_with_dts(t, d, frame, key);
    let after = full(m);
    let c = classify(&r);
    if check_contract {
        let finite = t.is_finite() && d.is_finite();
        let nonneg = !(t < 0.0) && !(d < 0.0);
        let incr_lo = match prev_dts { Some(p) => d > p, None => true };
        let incr_hi = match prev_dts { Some(p) => d >= p + 2.0 * TICK, None => true };
        let gap_ok_hi = match prev_dts { Some(p) => d <= p + GAP32 - 2.0 * TICK, None => true };
        let gap_ok_lo = match prev_dts { Some(p) => d < p + GAP32 + 2.0 * TICK, None => true };
        let first = prev_dts.is_none();
        let first_ok = !first || (key && frame_has_config);
        let huge = t >= 1.0e14 || d >= 1.0e14;
        if c == Cls::Ok {
            assert!(!frame.is_empty() && finite && nonneg && incr_lo && gap_ok_lo && first_ok, "accepted although a precondition is violated");
        }
        if !frame.is_empty() && finite && nonneg && incr_hi && gap_ok_hi && first_ok && !huge {
            assert!(c == Cls::Ok, "rejected although every precondition holds");
        }
        match c {
            Cls::Ok => {}
            Cls::Empty => assert!(frame.is_empty()),
            Cls::NotFinite => assert!(!finite),
            Cls::Negative => assert!(!nonneg),
            Cls::NotIncreasing => assert!(!incr_hi),
            Cls::GapTooLarge => assert!(!gap_ok_hi),
            Cls::FirstNotKey => assert!(first && !key),
            Cls::MissingConfig => assert!(first && !frame_has_config),
            Cls::Finished => panic!("muxer is not finished"),
            _ => panic!("error variant that no write_video_with_dts precondition corresponds to"),
        }
    }
    if check_trace && c != Cls::Ok {
        assert!(before.m == after.m, "rejected write_video_with_dts changed the muxer bookkeeping");
        assert!(before.w == after.w, "rejected write_video_with_dts changed the writer state");
        assert!(before.v_prev == after.v_prev, "rejected write_video_with_dts changed a queued sample");
    }
    crate::vcover!(c == Cls::Ok, "accepted");
    crate::vcover!(c == Cls::MissingConfig || c == Cls::FirstNotKey, "rejected by the writer");
    core::mem::forget(r);
}
//@ prop=C04,C12 tier=quick cost=26 fns="api::Muxer::write_video_with_dts,Mp4Writer::write_video_sample_with_dts" bound="fresh VP9 muxer; any f64 pts and dts, any key flag; valid keyframe" unwind=14 stubs="fmt::format" timeout=1200 covers_optional="rejected by the writer"
h!(c04_video_dts_fresh_key, 14, {
    let mut m = new_muxer(VideoCodec::Vp9, Aud::Opus);
    video_dts_step(&mut m, None, &VP9_KEY, true, true, false);
    core::mem::forget(m);
});
//@ prop=C04,C12 tier=quick cost=22 fns="api::Muxer::write_video_with_dts,Mp4Writer::write_video_sample_with_dts" bound="VP9 muxer after one explicit-DTS keyframe at pts 1.0 / dts 1.0; any f64 pts and dts, any key flag" unwind=14 stubs="fmt::format" timeout=1200 covers_optional="rejected by the writer"
h!(c04_video_dts_second, 14, {
    let mut m = new_muxer(VideoCodec::Vp9, Aud::Opus);
    let r0 = m.write_video_with_dts(1.0, 1.0, &VP9_KEY, true);
    assert!(r0.is_ok());
    video_dts_step(&mut m, Some(1.0), &VP9_DELTA, false, true, false);
    core::mem::forget((m, r0));
});
//@ prop=C05 tier=quick cost=16 fns="api::Muxer::write_video_with_dts" bound="fresh VP9 muxer; any f64 pts and dts, any key flag; frame without configuration (rejected by the writer)" unwind=14 stubs="fmt::format" timeout=1200 covers_optional="accepted"
h!(c05_video_dts_fresh_noconfig, 14, {
    let mut m = new_muxer(VideoCodec::Vp9, Aud::Opus);
    video_dts_step(&mut m, None, &VP9_DELTA, false, false, true);
    core::mem::forget(m);
});
//@ prop=C05 tier=quick cost=17 fns="api::Muxer::write_video_with_dts" bound="VP9 muxer after one explicit-DTS keyframe; any f64 pts and dts (rejections by time)" unwind=14 stubs="fmt::format" timeout=1200 covers_optional="rejected by the writer"
h!(c05_video_dts_second, 14, {
    let mut m = new_muxer(VideoCodec::Vp9, Aud::Opus);
    let r0 = m.write_video_with_dts(1.0, 1.0, &VP9_KEY, true);
    assert!(r0.is_ok());
    video_dts_step(&mut m, Some(1.0), &VP9_DELTA, false, false, true);
    core::mem::forget((m, r0));
});
//@ prop=C05,C04 tier=quick cost=16 fns="api::Muxer::write_video_with_dts,api::Muxer::write_audio" bound="fresh VP9+Opus muxer; rejected first explicit-DTS frame (any f64 pts/dts), then audio at any f64 pts" unwind=14 stubs="fmt::format" timeout=1200
h!(c05_rejected_first_dts_video_then_audio, 14, {
    let mut m = new_muxer(VideoCodec::Vp9, Aud::Opus);
    let r = m.write_video_with_dts(kani::any(), kani::any(), &VP9_DELTA, kani::any());
    assert!(r.is_err(), "a first frame without configuration is rejected");
    let ra = m.write_audio(kani::any(), &OPUS_PKT);
    assert!(classify(&ra) != Cls::Ok, "audio accepted although no video frame was ever accepted");
    crate::vcover!(true, "reached");
    core::mem::forget((m, r, ra));
});
