//! C13 — sink failures and partial writes never corrupt, duplicate or hide data.
//! The sample timestamps are concrete here; the FAULT SCHEDULE is symbolic: the index of
//! the write call that fails hard, the one that is cut short to a single byte, and the
//! one that reports Interrupted are arbitrary. A fault-free reference run of the same
//! shape in the same harness supplies the byte stream every accepted chunk is compared to.
use crate::fin::*;
use crate::stubs::*;
use muxide::verif_hooks::mp4::verif as mp4h;

const RMAX: usize = 64;

/// The fault-free byte stream of this shape, assembled from the real ftyp, the (concrete)
/// interleave order and the 8-byte moov stand-in: reference layout, not a second run.
fn ref_stream<const NV: usize, const NA: usize>(vpts: &[u64; NV], apts: &[u64; NA], fast_start: bool, audio: bool) -> ([u8; RMAX], usize) {
    let mut r = [0u8; RMAX];
    let ftyp = mp4h::build_ftyp_box();
    let f = crate::bx::snap::<24>(&ftyp);
    r[..24].copy_from_slice(&f);
    let mut p = 24usize;
    let moov = [MOOV_TAG, 0, 0, 0, 0, 0, 0, 0];
    if fast_start {
        r[p..p + 8].copy_from_slice(&moov);
        p += 8;
    }
    let payload_total = total_payload::<NV, NA>() as usize;
    let have_mdat = NV + NA > 0 || fast_start || audio;
    if have_mdat {
        r[p + 3] = (8 + payload_total) as u8;
        r[p + 4] = b'm';
        r[p + 5] = b'd';
        r[p + 6] = b'a';
        r[p + 7] = b't';
        p += 8;
        let data_start = p;
        let mut i = 0;
        while i < NV {
            let o = if audio { data_start + bytes_before(vpts, apts, rank(vpts, apts, 0, i)) as usize } else {
                let mut run = 0;
                let mut k = 0;
                while k < i {
                    run += VSIZE[k];
                    k += 1;
                }
                data_start + run
            };
            let mut k = 0;
            while k < VSIZE[i] {
                r[o + k] = vtag(i);
                k += 1;
            }
            i += 1;
        }
        let mut j = 0;
        while j < NA {
            let o = data_start + bytes_before(vpts, apts, rank(vpts, apts, 1, j)) as usize;
            let mut k = 0;
            while k < ASIZE[j] {
                r[o + k] = atag(j);
                k += 1;
            }
            j += 1;
        }
        p += payload_total;
    }
    if !fast_start {
        r[p..p + 8].copy_from_slice(&moov);
        p += 8;
    }
    (r, p)
}

/// One misbehaving write call at the CONCRETE index `at`; what it does is symbolic: fail
/// hard, report Interrupted, or accept only a symbolic number of bytes (0 = WriteZero).
fn fault_body<const NV: usize, const NA: usize>(fast_start: bool, audio: bool, at: usize) {
    no_carrier();
    let vpts: [u64; NV] = core::array::from_fn(|i| 3000 * i as u64);
    let apts: [u64; NA] = core::array::from_fn(|j| 1500 + 3000 * j as u64);
    let vkey: [bool; NV] = core::array::from_fn(|i| i == 0);
    let (rb_arr, rlen_arr) = ref_stream::<NV, NA>(&vpts, &apts, fast_start, audio);
    // native replay: the real moov is written, so the reference is a fault-free native run
    let native_ref: Vec<u8> = if replay_mode() {
        let mut w0 = build_writer::<NV, NA>(RecSink::new(), vpts, vkey, apts, audio);
        let r0 = w0.finalize(&VIDEO, None, fast_start);
        assert!(r0.is_ok());
        let b = mp4h::sink(&w0).log.clone();
        core::mem::forget((w0, r0));
        b
    } else {
        Vec::new()
    };
    let (rb, rlen): (&[u8], usize) = if replay_mode() { (&native_ref[..], native_ref.len()) } else { (&rb_arr[..], rlen_arr) };
    // ---- faulty run ---------------------------------------------------------------------
    let mut sink = RecSink::new();
    sink.fault_at = at;
    sink.fault_fail = kani::any();
    sink.fault_intr = kani::any();
    sink.fault_accept = kani::any();
    let mut w = build_writer::<NV, NA>(sink, vpts, vkey, apts, audio);
    let r = w.finalize(&VIDEO, None, fast_start);
    let s = mp4h::sink(&w);
    assert!(r.is_err() == s.failed, "finalize reports an error iff a write ultimately failed");
    assert!(s.calls <= K, "bounded number of write calls");
    let mut pos = 0usize;
    macro_rules! chunk {
        ($($i:expr),*) => { $(
            if $i < s.calls && s.lens[$i] > 0 {
                assert!(pos + s.lens[$i] <= rlen, "the sink never receives more than the fault-free file");
                assert!(rb[pos] == s.firsts[$i], "accepted bytes are a prefix of the fault-free file");
                pos += s.lens[$i];
            }
        )* };
    }
    chunk!(0, 1, 2, 3, 4, 5, 6, 7, 8, 9, 10, 11);
    assert!(pos as u64 == s.total);
    if !s.failed {
        assert!(pos == rlen, "short or interrupted writes alone lose nothing");
        assert!(mp4h::bytes_written(&w) == rlen as u64, "reported byte count = fault-free length");
    }
    let calls = s.calls;
    let total = s.total;
    let failed = s.failed;
    let r2 = w.finalize(&VIDEO, None, fast_start);
    assert!(r2.is_err(), "finalize cannot be retried");
    let r3 = w.write_video_sample_with_dts(1 << 40, 1 << 40, &[1u8], true);
    assert!(r3.is_err(), "writes after a (failed) finalize are refused");
    assert!(mp4h::sink(&w).calls == calls && mp4h::sink(&w).total == total, "no later call writes anything");
    crate::vcover!(failed && (total as usize) < rlen, "failure reached");
    crate::vcover!(!failed && calls > 0, "completed despite the fault");
    core::mem::forget((w, r, r2, r3));
}

macro_rules! fault_h {
    ($name:ident, $nv:expr, $na:expr, $fast:expr, $audio:expr, $at:expr, $unw:expr) => {
        #[kani::proof]
        #[kani::unwind($unw)]
        #[kani::stub(muxide::invariant_ppt::__assert_invariant_impl, crate::stubs::assert_invariant_stub)]
        #[kani::stub(muxide::muxer::mp4::build_moov_box, muxide::verif_hooks::mp4::verif::moov_recording_stub)]
        pub fn $name() {
            fault_body::<$nv, $na>($fast, $audio, $at);
        }
    };
}
//@ prop=C13 tier=thorough cost=900 fns="Mp4Writer::finalize,finalize_standard,write_counted,io::Write::write_all" bound="standard, video-only 2 samples; write call #0 fails hard / is Interrupted / accepts any number of bytes (all symbolic)" unwind=5 stubs="build_moov_box(recording stand-in)" timeout=3000
fault_h!(c13_std_v2_at0, 2, 0, false, false, 0, 5);
//@ prop=C13 tier=thorough cost=900 fns="Mp4Writer::finalize,finalize_standard,write_counted,io::Write::write_all" bound="standard, video-only 2 samples; write call #1 fails hard / is Interrupted / accepts any number of bytes (all symbolic)" unwind=5 stubs="build_moov_box(recording stand-in)" timeout=3000
fault_h!(c13_std_v2_at1, 2, 0, false, false, 1, 5);
//@ prop=C13 tier=thorough cost=900 fns="Mp4Writer::finalize,finalize_standard,write_counted,io::Write::write_all" bound="standard, video-only 2 samples; write call #2 fails hard / is Interrupted / accepts any number of bytes (all symbolic)" unwind=5 stubs="build_moov_box(recording stand-in)" timeout=3000
fault_h!(c13_std_v2_at2, 2, 0, false, false, 2, 5);
//@ prop=C13 tier=quick cost=300 fns="Mp4Writer::finalize,finalize_standard,write_counted,io::Write::write_all" bound="standard, video-only 2 samples; write call #3 fails hard / is Interrupted / accepts any number of bytes (all symbolic)" unwind=5 stubs="build_moov_box(recording stand-in)" timeout=1200
fault_h!(c13_std_v2_at3, 2, 0, false, false, 3, 5);
//@ prop=C13 tier=thorough cost=900 fns="Mp4Writer::finalize,finalize_standard,write_counted,io::Write::write_all" bound="standard, video-only 2 samples; write call #4 fails hard / is Interrupted / accepts any number of bytes (all symbolic)" unwind=5 stubs="build_moov_box(recording stand-in)" timeout=3000
fault_h!(c13_std_v2_at4, 2, 0, false, false, 4, 5);
//@ prop=C13 tier=quick cost=300 fns="Mp4Writer::finalize,finalize_standard,write_counted,io::Write::write_all" bound="standard, video-only 2 samples; write call #5 fails hard / is Interrupted / accepts any number of bytes (all symbolic)" unwind=5 stubs="build_moov_box(recording stand-in)" timeout=1200
fault_h!(c13_std_v2_at5, 2, 0, false, false, 5, 5);
//@ prop=C13 tier=thorough cost=900 fns="Mp4Writer::finalize,finalize_fast_start,write_counted,io::Write::write_all" bound="fast start, 1 video + 1 audio sample; write call #0 fails hard / is Interrupted / accepts any number of bytes (all symbolic)" unwind=5 stubs="build_moov_box(recording stand-in)" timeout=3000
fault_h!(c13_fast_v1a1_at0, 1, 1, true, true, 0, 5);
//@ prop=C13 tier=thorough cost=900 fns="Mp4Writer::finalize,finalize_fast_start,write_counted,io::Write::write_all" bound="fast start, 1 video + 1 audio sample; write call #1 fails hard / is Interrupted / accepts any number of bytes (all symbolic)" unwind=5 stubs="build_moov_box(recording stand-in)" timeout=3000
fault_h!(c13_fast_v1a1_at1, 1, 1, true, true, 1, 5);
//@ prop=C13 tier=thorough cost=900 fns="Mp4Writer::finalize,finalize_fast_start,write_counted,io::Write::write_all" bound="fast start, 1 video + 1 audio sample; write call #2 fails hard / is Interrupted / accepts any number of bytes (all symbolic)" unwind=5 stubs="build_moov_box(recording stand-in)" timeout=3000
fault_h!(c13_fast_v1a1_at2, 1, 1, true, true, 2, 5);
//@ prop=C13 tier=thorough cost=900 fns="Mp4Writer::finalize,finalize_fast_start,write_counted,io::Write::write_all" bound="fast start, 1 video + 1 audio sample; write call #3 fails hard / is Interrupted / accepts any number of bytes (all symbolic)" unwind=5 stubs="build_moov_box(recording stand-in)" timeout=3000
fault_h!(c13_fast_v1a1_at3, 1, 1, true, true, 3, 5);
//@ prop=C13 tier=thorough cost=300 fns="Mp4Writer::finalize,finalize_fast_start,write_counted,io::Write::write_all" bound="fast start, 1 video + 1 audio sample; write call #4 fails hard / is Interrupted / accepts any number of bytes (all symbolic)" unwind=5 stubs="build_moov_box(recording stand-in)" timeout=1200
fault_h!(c13_fast_v1a1_at4, 1, 1, true, true, 4, 5);
//@ prop=C13 tier=thorough cost=900 fns="Mp4Writer::finalize,finalize_fast_start,write_counted,io::Write::write_all" bound="fast start, 1 video + 1 audio sample; write call #5 fails hard / is Interrupted / accepts any number of bytes (all symbolic)" unwind=5 stubs="build_moov_box(recording stand-in)" timeout=3000
fault_h!(c13_fast_v1a1_at5, 1, 1, true, true, 5, 5);
//@ prop=C13 tier=thorough cost=900 fns="Mp4Writer::finalize,finalize_standard,write_counted,io::Write::write_all" bound="standard, 1 video + 1 audio sample; write call #0 fails hard / is Interrupted / accepts any number of bytes (all symbolic)" unwind=5 stubs="build_moov_box(recording stand-in)" timeout=3000
fault_h!(c13_std_v1a1_at0, 1, 1, false, true, 0, 5);
//@ prop=C13 tier=thorough cost=900 fns="Mp4Writer::finalize,finalize_standard,write_counted,io::Write::write_all" bound="standard, 1 video + 1 audio sample; write call #1 fails hard / is Interrupted / accepts any number of bytes (all symbolic)" unwind=5 stubs="build_moov_box(recording stand-in)" timeout=3000
fault_h!(c13_std_v1a1_at1, 1, 1, false, true, 1, 5);
//@ prop=C13 tier=thorough cost=300 fns="Mp4Writer::finalize,finalize_standard,write_counted,io::Write::write_all" bound="standard, 1 video + 1 audio sample; write call #2 fails hard / is Interrupted / accepts any number of bytes (all symbolic)" unwind=5 stubs="build_moov_box(recording stand-in)" timeout=1200
fault_h!(c13_std_v1a1_at2, 1, 1, false, true, 2, 5);
//@ prop=C13 tier=thorough cost=900 fns="Mp4Writer::finalize,finalize_standard,write_counted,io::Write::write_all" bound="standard, 1 video + 1 audio sample; write call #3 fails hard / is Interrupted / accepts any number of bytes (all symbolic)" unwind=5 stubs="build_moov_box(recording stand-in)" timeout=3000
fault_h!(c13_std_v1a1_at3, 1, 1, false, true, 3, 5);
//@ prop=C13 tier=thorough cost=900 fns="Mp4Writer::finalize,finalize_standard,write_counted,io::Write::write_all" bound="standard, 1 video + 1 audio sample; write call #4 fails hard / is Interrupted / accepts any number of bytes (all symbolic)" unwind=5 stubs="build_moov_box(recording stand-in)" timeout=3000
fault_h!(c13_std_v1a1_at4, 1, 1, false, true, 4, 5);
//@ prop=C13 tier=thorough cost=900 fns="Mp4Writer::finalize,finalize_standard,write_counted,io::Write::write_all" bound="standard, 1 video + 1 audio sample; write call #5 fails hard / is Interrupted / accepts any number of bytes (all symbolic)" unwind=5 stubs="build_moov_box(recording stand-in)" timeout=3000
fault_h!(c13_std_v1a1_at5, 1, 1, false, true, 5, 5);
//@ prop=C13 tier=thorough cost=900 fns="Mp4Writer::finalize,finalize_fast_start,write_counted,io::Write::write_all" bound="fast start, video-only 2 samples; write call #0 fails hard / is Interrupted / accepts any number of bytes (all symbolic)" unwind=5 stubs="build_moov_box(recording stand-in)" timeout=3000
fault_h!(c13_fast_v2_at0, 2, 0, true, false, 0, 5);
//@ prop=C13 tier=thorough cost=900 fns="Mp4Writer::finalize,finalize_fast_start,write_counted,io::Write::write_all" bound="fast start, video-only 2 samples; write call #1 fails hard / is Interrupted / accepts any number of bytes (all symbolic)" unwind=5 stubs="build_moov_box(recording stand-in)" timeout=3000
fault_h!(c13_fast_v2_at1, 2, 0, true, false, 1, 5);
//@ prop=C13 tier=quick cost=300 fns="Mp4Writer::finalize,finalize_fast_start,write_counted,io::Write::write_all" bound="fast start, video-only 2 samples; write call #2 fails hard / is Interrupted / accepts any number of bytes (all symbolic)" unwind=5 stubs="build_moov_box(recording stand-in)" timeout=1200
fault_h!(c13_fast_v2_at2, 2, 0, true, false, 2, 5);
//@ prop=C13 tier=thorough cost=900 fns="Mp4Writer::finalize,finalize_fast_start,write_counted,io::Write::write_all" bound="fast start, video-only 2 samples; write call #3 fails hard / is Interrupted / accepts any number of bytes (all symbolic)" unwind=5 stubs="build_moov_box(recording stand-in)" timeout=3000
fault_h!(c13_fast_v2_at3, 2, 0, true, false, 3, 5);
//@ prop=C13 tier=thorough cost=900 fns="Mp4Writer::finalize,finalize_fast_start,write_counted,io::Write::write_all" bound="fast start, video-only 2 samples; write call #4 fails hard / is Interrupted / accepts any number of bytes (all symbolic)" unwind=5 stubs="build_moov_box(recording stand-in)" timeout=3000
fault_h!(c13_fast_v2_at4, 2, 0, true, false, 4, 5);
//@ prop=C13 tier=thorough cost=300 fns="Mp4Writer::finalize,finalize_fast_start,write_counted,io::Write::write_all" bound="fast start, video-only 2 samples; write call #5 fails hard / is Interrupted / accepts any number of bytes (all symbolic)" unwind=5 stubs="build_moov_box(recording stand-in)" timeout=1200
fault_h!(c13_fast_v2_at5, 2, 0, true, false, 5, 5);

// API level: an I/O failure surfaces as MuxerError::Io and the muxer stays finished-or-failed
//@ prop=C13 tier=thorough cost=400 fns="api::Muxer::finish_in_place_with_stats,Mp4Writer::finalize" bound="API muxer with one VP9 frame, either layout; write call #2 fails hard or accepts any number of bytes" unwind=12 stubs="build_moov_box(recording stand-in)" timeout=1500
#[kani::proof]
#[kani::unwind(11)]
#[kani::stub(muxide::invariant_ppt::__assert_invariant_impl, crate::stubs::assert_invariant_stub)]
#[kani::stub(muxide::muxer::mp4::build_moov_box, muxide::verif_hooks::mp4::verif::moov_recording_stub)]
pub fn c13_api_io_error() {
    use muxide::api::{MuxerBuilder, MuxerError, VideoCodec};
    no_carrier();
    let mut sink = RecSink::new();
    sink.fault_at = 2;
    sink.fault_fail = kani::any();
    sink.fault_accept = kani::any();
    let mut m = match MuxerBuilder::new(sink).video(VideoCodec::Vp9, 64, 48, 30.0).with_fast_start(kani::any()).build() {
        Ok(m) => m,
        Err(_) => panic!("build"),
    };
    let r0 = m.write_video(0.0, &crate::apistep::VP9_KEY, true);
    assert!(r0.is_ok());
    let r = m.finish_in_place_with_stats();
    let failed = mp4h::sink(muxide::api::verif::writer(&m)).failed;
    match &r {
        Ok(st) => {
            assert!(!failed, "success although a write failed");
            assert!(st.bytes_written == mp4h::sink(muxide::api::verif::writer(&m)).total);
        }
        Err(MuxerError::Io(_)) => assert!(failed, "Io error although no write failed"),
        Err(_) => panic!("a sink failure must surface as MuxerError::Io"),
    }
    let total = mp4h::sink(muxide::api::verif::writer(&m)).total;
    let r2 = m.finish_in_place();
    assert!(r2.is_err(), "no second attempt");
    assert!(mp4h::sink(muxide::api::verif::writer(&m)).total == total, "nothing further is written");
    crate::vcover!(failed, "failure injected");
    crate::vcover!(!failed, "no failure");
    core::mem::forget((m, r0, r, r2));
}
