//! C13 — sink failures and partial writes never corrupt, duplicate or hide data.
//! The sample timestamps are concrete here; the FAULT SCHEDULE is symbolic: the index of
//! the write call that fails hard, the one that is cut short to a single byte, and the
//! one that reports Interrupted are arbitrary. A fault-free reference run of the same
//! shape in the same harness supplies the byte stream every accepted chunk is compared to.
use crate::fin::*;
use crate::stubs::*;
use muxide::verif_hooks::mp4::verif as mp4h;

const RMAX: usize = 64;

/// Byte-logging sink for the fault-free reference run (everything concrete).
struct LogSink {
    bytes: [u8; RMAX],
    total: usize,
}
impl std::io::Write for LogSink {
    fn write(&mut self, buf: &[u8]) -> std::io::Result<usize> {
        let n = buf.len();
        assert!(self.total + n <= RMAX);
        self.bytes[self.total..self.total + n].copy_from_slice(buf);
        self.total += n;
        Ok(n)
    }
    fn flush(&mut self) -> std::io::Result<()> {
        Ok(())
    }
}

/// mode bits: 1 = symbolic hard-failure index, 2 = symbolic short-write index, 4 = symbolic Interrupted index
fn fault_body<const NV: usize, const NA: usize>(fast_start: bool, audio: bool, mode: u8) {
    no_carrier();
    let vpts: [u64; NV] = core::array::from_fn(|i| 3000 * i as u64);
    let apts: [u64; NA] = core::array::from_fn(|j| 1500 + 3000 * j as u64);
    let vkey: [bool; NV] = core::array::from_fn(|i| i == 0);
    // ---- reference run ----------------------------------------------------------------
    let video0: [_; NV] = core::array::from_fn(|i| mp4h::mk_sample(vpts[i], 1000 * i as u64, payload(vtag(i), VSIZE[i]), vkey[i], None));
    let audio0: [_; NA] = core::array::from_fn(|j| mp4h::mk_sample(apts[j], apts[j], payload(atag(j), ASIZE[j]), false, None));
    let mut w0 = mp4h::writer_with_state::<LogSink, NV, NA>(LogSink { bytes: [0; RMAX], total: 0 }, muxide::api::VideoCodec::Vp9, video0,
        if audio { Some(audio_track()) } else { None }, audio0, None, None, None, None, None, false, 0);
    let r0 = w0.finalize(&VIDEO, None, fast_start);
    assert!(r0.is_ok());
    let rlen = mp4h::sink(&w0).total;
    // ---- faulty run ---------------------------------------------------------------------
    let mut sink = RecSink::new();
    if mode & 1 != 0 {
        sink.fail_at = kani::any();
        kani::assume(sink.fail_at <= K);
    }
    if mode & 2 != 0 {
        sink.short_at = kani::any();
        kani::assume(sink.short_at <= K);
    }
    if mode & 4 != 0 {
        sink.intr_at = kani::any();
        kani::assume(sink.intr_at <= K);
    }
    let mut w = build_writer::<NV, NA>(sink, vpts, vkey, apts, audio);
    let r = w.finalize(&VIDEO, None, fast_start);
    let s = mp4h::sink(&w);
    assert!(r.is_err() == s.failed, "finalize reports an error iff a write ultimately failed");
    assert!(s.calls <= K, "bounded number of write calls");
    // accepted chunks: contiguous, each starting with the byte the fault-free file has there
    let rb = &mp4h::sink(&w0).bytes;
    let mut pos = 0usize;
    macro_rules! chunk {
        ($($i:expr),*) => { $(
            if $i < s.calls && s.lens[$i] > 0 {
                assert!(pos + s.lens[$i] <= rlen, "the sink never receives more than the fault-free file");
                assert!(rb[pos] == s.firsts[$i], "accepted bytes are a prefix of the fault-free file");
                pos += s.lens[$i];
            }
        )* };
    }
    chunk!(0, 1, 2, 3, 4, 5, 6, 7, 8, 9, 10, 11);
    assert!(pos as u64 == s.total);
    if !s.failed {
        assert!(pos == rlen, "short or interrupted writes alone lose nothing");
        assert!(mp4h::bytes_written(&w) == rlen as u64, "reported byte count = fault-free length");
    }
    // after the attempt (successful or not) nothing further is ever written
    let calls = s.calls;
    let total = s.total;
    let failed = s.failed;
    let r2 = w.finalize(&VIDEO, None, fast_start);
    assert!(r2.is_err(), "finalize cannot be retried");
    let r3 = w.write_video_sample_with_dts(1 << 40, 1 << 40, &[1u8], true);
    assert!(r3.is_err(), "writes after a (failed) finalize are refused");
    assert!(mp4h::sink(&w).calls == calls && mp4h::sink(&w).total == total, "no later call writes anything");
    kani::cover!(mode & 1 == 0 || (failed && total > 0 && (total as usize) < rlen), "hard failure in the middle of the file");
    kani::cover!(mode & 6 == 0 || (!failed && total as usize == rlen), "short / interrupted writes retried to completion");
    kani::cover!(mode & 1 == 0 || (failed && total == 0), "failure on the very first write");
    core::mem::forget((w, w0, r, r0, r2, r3));
}

macro_rules! fault_h {
    ($name:ident, $nv:expr, $na:expr, $fast:expr, $audio:expr, $mode:expr, $unw:expr) => {
        #[kani::proof]
        #[kani::unwind($unw)]
        #[kani::stub(muxide::invariant_ppt::__assert_invariant_impl, crate::stubs::assert_invariant_stub)]
        #[kani::stub(muxide::muxer::mp4::build_moov_box, muxide::verif_hooks::mp4::verif::moov_recording_stub)]
        pub fn $name() {
            fault_body::<$nv, $na>($fast, $audio, $mode);
        }
    };
}
//@ prop=C13 tier=quick cost=300 fns="Mp4Writer::finalize,finalize_standard,write_counted,io::Write::write_all" bound="standard, video-only 2 samples; hard failure at any write call index 0..=12" unwind=4 stubs="build_moov_box(recording stand-in)" timeout=1500
fault_h!(c13_fail_std_v2, 2, 0, false, false, 1, 4);
//@ prop=C13 tier=quick cost=300 fns="Mp4Writer::finalize,finalize_fast_start,write_counted,io::Write::write_all" bound="fast start, 1 video + 1 audio sample; hard failure at any write call index" unwind=4 stubs="build_moov_box(recording stand-in)" timeout=1500
fault_h!(c13_fail_fast_v1a1, 1, 1, true, true, 1, 4);
//@ prop=C13 tier=quick cost=400 fns="Mp4Writer::finalize,finalize_standard,write_counted,io::Write::write_all" bound="standard, 1 video + 1 audio sample; one write cut to a single byte at any call index" unwind=4 stubs="build_moov_box(recording stand-in)" timeout=1500
fault_h!(c13_short_std_v1a1, 1, 1, false, true, 2, 4);
//@ prop=C13 tier=quick cost=400 fns="Mp4Writer::finalize,finalize_fast_start,write_counted,io::Write::write_all" bound="fast start, video-only 2 samples; one Interrupted result at any call index" unwind=4 stubs="build_moov_box(recording stand-in)" timeout=1500
fault_h!(c13_intr_fast_v2, 2, 0, true, false, 4, 4);
//@ prop=C13 tier=thorough cost=900 fns="Mp4Writer::finalize,finalize_standard,write_counted,io::Write::write_all" bound="standard, 2 video + 1 audio samples; hard failure at any call index" unwind=5 stubs="build_moov_box(recording stand-in)" timeout=3000 mem=30
fault_h!(c13_fail_std_v2a1, 2, 1, false, true, 1, 5);
//@ prop=C13 tier=thorough cost=900 fns="Mp4Writer::finalize,finalize_fast_start,write_counted,io::Write::write_all" bound="fast start, 2 video + 1 audio samples; hard failure at any call index" unwind=5 stubs="build_moov_box(recording stand-in)" timeout=3000 mem=30
fault_h!(c13_fail_fast_v2a1, 2, 1, true, true, 1, 5);
//@ prop=C13 tier=thorough cost=900 fns="Mp4Writer::finalize,finalize_standard,write_counted,io::Write::write_all" bound="standard, video-only 2 samples; short write AND hard failure at any two call indices" unwind=4 stubs="build_moov_box(recording stand-in)" timeout=3000 mem=30
fault_h!(c13_short_fail_std_v2, 2, 0, false, false, 3, 4);
//@ prop=C13 tier=thorough cost=900 fns="Mp4Writer::finalize,finalize_fast_start,write_counted,io::Write::write_all" bound="fast start, 1 video + 1 audio; short write AND Interrupted at any two call indices" unwind=5 stubs="build_moov_box(recording stand-in)" timeout=3000 mem=30
fault_h!(c13_short_intr_fast_v1a1, 1, 1, true, true, 6, 5);

// API level: an I/O failure surfaces as MuxerError::Io and the muxer stays finished-or-failed
//@ prop=C13 tier=quick cost=400 fns="api::Muxer::finish_in_place_with_stats,Mp4Writer::finalize" bound="API muxer with one VP9 frame; hard failure at any write call index 0..=12" unwind=12 stubs="build_moov_box(recording stand-in)" timeout=1500
#[kani::proof]
#[kani::unwind(11)]
#[kani::stub(muxide::invariant_ppt::__assert_invariant_impl, crate::stubs::assert_invariant_stub)]
#[kani::stub(muxide::muxer::mp4::build_moov_box, muxide::verif_hooks::mp4::verif::moov_recording_stub)]
pub fn c13_api_io_error() {
    use muxide::api::{MuxerBuilder, MuxerError, VideoCodec};
    no_carrier();
    let mut sink = RecSink::new();
    sink.fail_at = kani::any();
    kani::assume(sink.fail_at <= K);
    let mut m = match MuxerBuilder::new(sink).video(VideoCodec::Vp9, 64, 48, 30.0).with_fast_start(kani::any()).build() {
        Ok(m) => m,
        Err(_) => panic!("build"),
    };
    let r0 = m.write_video(0.0, &crate::apistep::VP9_KEY, true);
    assert!(r0.is_ok());
    let r = m.finish_in_place_with_stats();
    let failed = mp4h::sink(muxide::api::verif::writer(&m)).failed;
    match &r {
        Ok(st) => {
            assert!(!failed, "success although a write failed");
            assert!(st.bytes_written == mp4h::sink(muxide::api::verif::writer(&m)).total);
        }
        Err(MuxerError::Io(_)) => assert!(failed, "Io error although no write failed"),
        Err(_) => panic!("a sink failure must surface as MuxerError::Io"),
    }
    let total = mp4h::sink(muxide::api::verif::writer(&m)).total;
    let r2 = m.finish_in_place();
    assert!(r2.is_err(), "no second attempt");
    assert!(mp4h::sink(muxide::api::verif::writer(&m)).total == total, "nothing further is written");
    kani::cover!(failed, "failure injected");
    kani::cover!(!failed, "no failure");
    core::mem::forget((m, r0, r, r2));
}
