//! C09 — audio/video synchronisation. Decided on the tables the real `Mp4Writer::finalize`
//! hands to the moov builder (recording stand-in), read with the ISO 14496-12 timeline rules of
//! a track WITHOUT an edit list: DT(0) = 0, DT(i+1) = DT(i) + stts(i), CT(i) = DT(i) + ctts(i).
//! That the real trak builders emit exactly {tkhd, mdia} (no `edts`), that the AUDIO stbl never
//! carries a ctts (whatever the tables say: CT = DT for audio) and that the video stbl carries
//! one iff `has_bframes` is decided by `c02_trak_video_1` / `c02_trak_audio_1` /
//! `c02_stbl_video_2_ctts`, which are registered under C09 as well.
use crate::fin::*;
use muxide::api::VideoCodec;
use muxide::verif_hooks::mp4::verif as m;

fn sync_body(fast_start: bool, exclude_known: bool) {
    // first video sample: presentation v0, decode d0; audio: a0, a0+g1 (as the API admits them:
    // audio never precedes the first video frame; composition offsets are non-negative)
    let (v0, d0, a0): (u64, u64, u64) = (kani::any(), kani::any(), kani::any());
    let g1: u32 = kani::any();
    kani::assume(v0 < (1 << 31) && a0 < (1 << 31) && g1 < (1 << 30));
    kani::assume(d0 <= v0 && v0 <= a0);
    if exclude_known {
        // KF-C09-no-track-start-offset: no edit list / start offset exists, so the relation only
        // holds when the audio starts exactly at the first video DECODE time
        kani::assume(a0 == d0);
    }
    let a1 = a0 + g1 as u64;
    let c = carrier(8);
    let video = [m::mk_sample(v0, d0, payload(vtag(0), 2), true, None)];
    let audio = [m::mk_sample(a0, a0, payload(atag(0), 1), false, Some(g1)), m::mk_sample(a1, a1, payload(atag(1), 2), false, None)];
    let mut w = m::writer_with_state::<RecSink, 1, 2>(RecSink::new(), VideoCodec::Vp9, video, Some(audio_track()), audio,
        Some(d0), None, Some(a1), Some(g1), None, false, 0);
    let r = w.finalize(&c.track, None, fast_start);
    assert!(r.is_ok());
    let (want0, want1) = (a0 as i64 - v0 as i64, a1 as i64 - v0 as i64);
    if replay_mode() {
        let p = crate::native_mp4::parse(&m::sink(&w).log).expect("well-formed file");
        assert!(!p.tracks[0].has_edts && !p.tracks[1].has_edts, "native replay: an edit list is present; this oracle does not interpret it");
        let vct0 = p.tracks[0].cts().map(|c| c[0]).unwrap_or(0) as i64;
        let ad = p.tracks[1].durations();
        let ac = p.tracks[1].cts().unwrap_or(vec![0, 0]);
        assert!(ac[0] as i64 - vct0 == want0, "native replay: first audio sample is not presented at its submitted offset from the first video frame");
        assert!(ad[0] as i64 + ac[1] as i64 - vct0 == want1, "native replay: second audio sample is not presented at its submitted offset from the first video frame");
        core::mem::forget((w, r));
        return;
    }
    let mc = final_call(&c);
    assert!(mc.video.n == 1 && mc.audio.n == 2 && mc.audio_present);
    // video: ctts is written iff has_bframes; audio: never (CT = DT)
    let vct0 = if mc.video.has_bframes { mc.video.cts_offsets[0] as i64 } else { 0 };
    let act0 = 0i64;
    let act1 = mc.audio.durations[0] as i64;
    assert!(act0 - vct0 == want0, "first audio sample is presented at its submitted offset from the first video frame");
    assert!(act1 - vct0 == want1, "second audio sample is presented at its submitted offset from the first video frame");
    crate::vcover!(v0 > 0, "first video timestamp not zero");
    crate::vcover!(g1 > 0, "distinct audio timestamps");
    core::mem::forget((w, r));
}

//@ prop=C09 tier=quick cost=300 fns="Mp4Writer::finalize,finalize_standard,SampleTables::from_samples" bound="standard layout, 1 video + 2 audio samples; any first video pts/dts and audio pts < 2^31 with dts <= pts <= first audio pts; audio starting at the first video decode time (other starts: KF-C09)" unwind=6 stubs="build_moov_box(recording stand-in)" timeout=1400 mem=10
#[kani::proof]
#[kani::unwind(6)]
#[kani::stub(muxide::invariant_ppt::__assert_invariant_impl, crate::stubs::assert_invariant_stub)]
#[kani::stub(muxide::muxer::mp4::build_moov_box, muxide::verif_hooks::mp4::verif::moov_recording_stub)]
pub fn c09_sync_std_v1a2() {
    sync_body(false, crate::known::KF_C09_NO_TRACK_START_OFFSET);
}
//@ prop=C09 tier=quick cost=400 fns="Mp4Writer::finalize,finalize_fast_start,SampleTables::from_samples" bound="fast start, 1 video + 2 audio samples; same input space" unwind=6 stubs="build_moov_box(recording stand-in)" timeout=1400 mem=10
#[kani::proof]
#[kani::unwind(6)]
#[kani::stub(muxide::invariant_ppt::__assert_invariant_impl, crate::stubs::assert_invariant_stub)]
#[kani::stub(muxide::muxer::mp4::build_moov_box, muxide::verif_hooks::mp4::verif::moov_recording_stub)]
pub fn c09_sync_fast_v1a2() {
    sync_body(true, crate::known::KF_C09_NO_TRACK_START_OFFSET);
}
//@ prop=C09 tier=quick cost=300 fns="Mp4Writer::finalize,finalize_standard,SampleTables::from_samples" bound="standard layout, 1 video + 2 audio samples, audio start unconstrained" unwind=6 stubs="build_moov_box(recording stand-in)" timeout=1400 mem=10 expect=fail kf=KF-C09-no-track-start-offset
#[kani::proof]
#[kani::unwind(6)]
#[kani::stub(muxide::invariant_ppt::__assert_invariant_impl, crate::stubs::assert_invariant_stub)]
#[kani::stub(muxide::muxer::mp4::build_moov_box, muxide::verif_hooks::mp4::verif::moov_recording_stub)]
pub fn c09_w_audio_starts_later() {
    sync_body(false, false);
}

/// three audio samples (thorough): the relation for every audio sample, by accumulation of stts
fn sync_body3(fast_start: bool, exclude_known: bool) {
    let (v0, d0, a0): (u64, u64, u64) = (kani::any(), kani::any(), kani::any());
    let (g1, g2): (u32, u32) = (kani::any(), kani::any());
    kani::assume(v0 < (1 << 31) && a0 < (1 << 31) && g1 < (1 << 30) && g2 < (1 << 30));
    kani::assume(d0 <= v0 && v0 <= a0);
    if exclude_known {
        kani::assume(a0 == d0);
    }
    let (a1, a2) = (a0 + g1 as u64, a0 + g1 as u64 + g2 as u64);
    let c = carrier(8);
    let video = [m::mk_sample(v0, d0, payload(vtag(0), 2), true, None)];
    let audio = [
        m::mk_sample(a0, a0, payload(atag(0), 1), false, Some(g1)),
        m::mk_sample(a1, a1, payload(atag(1), 2), false, Some(g2)),
        m::mk_sample(a2, a2, payload(atag(2), 1), false, None),
    ];
    let mut w = m::writer_with_state::<RecSink, 1, 3>(RecSink::new(), VideoCodec::Vp9, video, Some(audio_track()), audio,
        Some(d0), None, Some(a2), Some(g2), None, false, 0);
    let r = w.finalize(&c.track, None, fast_start);
    assert!(r.is_ok());
    let want = [a0 as i64 - v0 as i64, a1 as i64 - v0 as i64, a2 as i64 - v0 as i64];
    if replay_mode() {
        let p = crate::native_mp4::parse(&m::sink(&w).log).expect("well-formed file");
        assert!(!p.tracks[0].has_edts && !p.tracks[1].has_edts, "native replay: an edit list is present; this oracle does not interpret it");
        let vct0 = p.tracks[0].cts().map(|c| c[0]).unwrap_or(0) as i64;
        let ad = p.tracks[1].durations();
        let ac = p.tracks[1].cts().unwrap_or(vec![0, 0, 0]);
        let dt = [0i64, ad[0] as i64, ad[0] as i64 + ad[1] as i64];
        for i in 0..3 {
            assert!(dt[i] + ac[i] as i64 - vct0 == want[i], "native replay: an audio sample is not presented at its submitted offset from the first video frame");
        }
        core::mem::forget((w, r));
        return;
    }
    let mc = final_call(&c);
    assert!(mc.video.n == 1 && mc.audio.n == 3 && mc.audio_present);
    let vct0 = if mc.video.has_bframes { mc.video.cts_offsets[0] as i64 } else { 0 };
    let dt1 = mc.audio.durations[0] as i64;
    let dt2 = dt1 + mc.audio.durations[1] as i64;
    assert!(0 - vct0 == want[0], "audio sample 0 is presented at its submitted offset from the first video frame");
    assert!(dt1 - vct0 == want[1], "audio sample 1 is presented at its submitted offset from the first video frame");
    assert!(dt2 - vct0 == want[2], "audio sample 2 is presented at its submitted offset from the first video frame");
    crate::vcover!(v0 > 0 && g1 != g2, "non-zero start, unequal gaps");
    core::mem::forget((w, r));
}
//@ prop=C09 tier=thorough cost=600 fns="Mp4Writer::finalize,finalize_standard,SampleTables::from_samples" bound="standard layout, 1 video + 3 audio samples, gaps < 2^30" unwind=7 stubs="build_moov_box(recording stand-in)" timeout=2400 mem=24
#[kani::proof]
#[kani::unwind(7)]
#[kani::stub(muxide::invariant_ppt::__assert_invariant_impl, crate::stubs::assert_invariant_stub)]
#[kani::stub(muxide::muxer::mp4::build_moov_box, muxide::verif_hooks::mp4::verif::moov_recording_stub)]
pub fn c09_sync_std_v1a3() {
    sync_body3(false, crate::known::KF_C09_NO_TRACK_START_OFFSET);
}
//@ prop=C09 tier=thorough cost=800 fns="Mp4Writer::finalize,finalize_fast_start,SampleTables::from_samples" bound="fast start, 1 video + 3 audio samples, gaps < 2^30" unwind=7 stubs="build_moov_box(recording stand-in)" timeout=2400 mem=24
#[kani::proof]
#[kani::unwind(7)]
#[kani::stub(muxide::invariant_ppt::__assert_invariant_impl, crate::stubs::assert_invariant_stub)]
#[kani::stub(muxide::muxer::mp4::build_moov_box, muxide::verif_hooks::mp4::verif::moov_recording_stub)]
pub fn c09_sync_fast_v1a3() {
    sync_body3(true, crate::known::KF_C09_NO_TRACK_START_OFFSET);
}
