//! Reference implementation of the AV1 sequence_header_obu() / color_config() syntax
//! (AV1 Bitstream & Decoding Process Specification, sections 5.5.1 - 5.5.2), transcribed
//! from the specification text and independent of muxide's BitReader: the payload is loaded
//! into one 128-bit window and fields are taken with shifts.
//!
//! Scope limits (returned as OutOfScope so the harness can `assume` them away and state them):
//!   * operating_points_cnt_minus_1 <= 1
//!   * uvlc leading zeros <= 8
//!   * reserved seq_profile values (> 2)
//! A header that runs out of bits before film_grain_params_present is Truncated.

#[derive(Clone, Copy, PartialEq, Eq, Debug)]
pub struct RefSeq {
    pub seq_profile: u8,
    pub seq_level_idx0: u8,
    pub seq_tier0: u8,
    pub high_bitdepth: bool,
    pub twelve_bit: bool,
    pub mono_chrome: bool,
    pub subsampling_x: bool,
    pub subsampling_y: bool,
    pub chroma_sample_position: u8,
    /// which syntax branches were taken (for cover statements)
    pub reduced: bool,
    pub timing_info: bool,
    pub decoder_model: bool,
    pub color_description: bool,
}

#[derive(Clone, Copy, PartialEq, Eq, Debug)]
pub enum RefResult {
    Parsed(RefSeq),
    Truncated,
    OutOfScope,
}

struct Win {
    w: u128,
    pos: u32,
    total: u32,
    ok: bool,
}
impl Win {
    fn f(&mut self, n: u32) -> u64 {
        // f(n): n-bit unsigned, MSB first. On underrun the reader turns sticky-bad and returns 0.
        if !self.ok || self.pos + n > self.total {
            self.ok = false;
            return 0;
        }
        if n == 0 {
            return 0;
        }
        let v = ((self.w << self.pos) >> (128 - n)) as u64;
        self.pos += n;
        v
    }
}

pub fn ref_sequence_header<const P: usize>(payload: &[u8; P]) -> RefResult {
    let mut w: u128 = 0;
    let mut i = 0;
    while i < P {
        w |= (payload[i] as u128) << (120 - 8 * i);
        i += 1;
    }
    let mut r = Win { w, pos: 0, total: 8 * P as u32, ok: true };
    let seq_profile = r.f(3) as u8;
    let _still_picture = r.f(1);
    let reduced = r.f(1) == 1;
    let mut level = 0u8;
    let mut tier = 0u8;
    let mut timing_info = false;
    let mut decoder_model = false;
    let mut out_of_scope = false;
    if reduced {
        level = r.f(5) as u8;
    } else {
        timing_info = r.f(1) == 1;
        let mut buffer_delay_length = 0u32;
        if timing_info {
            r.f(32); // num_units_in_display_tick
            r.f(32); // time_scale
            let equal_picture_interval = r.f(1) == 1;
            if equal_picture_interval {
                // uvlc(): count leading zeros, then read that many bits
                let mut lz = 0u32;
                let mut done = false;
                macro_rules! z {
                    () => {
                        if !done && r.ok {
                            if r.f(1) == 1 {
                                done = true;
                            } else {
                                lz += 1;
                            }
                        }
                    };
                }
                z!(); z!(); z!(); z!(); z!(); z!(); z!(); z!(); z!();
                if r.ok && !done {
                    out_of_scope = true; // more than 8 leading zeros
                }
                r.f(lz);
            }
            decoder_model = r.f(1) == 1;
            if decoder_model {
                buffer_delay_length = r.f(5) as u32 + 1;
                r.f(32); // num_units_in_decoding_tick
                r.f(5); // buffer_removal_time_length_minus_1
                r.f(5); // frame_presentation_time_length_minus_1
            }
        }
        let initial_display_delay_present = r.f(1) == 1;
        let op_cnt_minus_1 = r.f(5) as u32;
        if r.ok && op_cnt_minus_1 > 1 {
            out_of_scope = true;
        }
        macro_rules! op {
            ($i:expr) => {
                if ($i as u32) <= op_cnt_minus_1 && !out_of_scope {
                    r.f(12); // operating_point_idc
                    let l = r.f(5) as u8;
                    let t = if l > 7 { r.f(1) as u8 } else { 0 };
                    if $i == 0 {
                        level = l;
                        tier = t;
                    }
                    if decoder_model {
                        let present = r.f(1) == 1;
                        if present {
                            r.f(buffer_delay_length); // decoder_buffer_delay
                            r.f(buffer_delay_length); // encoder_buffer_delay
                            r.f(1); // low_delay_mode_flag
                        }
                    }
                    if initial_display_delay_present {
                        let present = r.f(1) == 1;
                        if present {
                            r.f(4);
                        }
                    }
                }
            };
        }
        op!(0);
        op!(1);
    }
    let wbits = r.f(4) as u32 + 1;
    let hbits = r.f(4) as u32 + 1;
    r.f(wbits);
    r.f(hbits);
    if !reduced {
        let frame_id_numbers_present = r.f(1) == 1;
        if frame_id_numbers_present {
            r.f(4);
            r.f(3);
        }
    }
    r.f(1); // use_128x128_superblock
    r.f(1); // enable_filter_intra
    r.f(1); // enable_intra_edge_filter
    if !reduced {
        r.f(1); // enable_interintra_compound
        r.f(1); // enable_masked_compound
        r.f(1); // enable_warped_motion
        r.f(1); // enable_dual_filter
        let enable_order_hint = r.f(1) == 1;
        if enable_order_hint {
            r.f(1); // enable_jnt_comp
            r.f(1); // enable_ref_frame_mvs
        }
        let seq_choose_screen_content_tools = r.f(1) == 1;
        let force_sct = if seq_choose_screen_content_tools { 2 } else { r.f(1) };
        if force_sct > 0 {
            let seq_choose_integer_mv = r.f(1) == 1;
            if !seq_choose_integer_mv {
                r.f(1);
            }
        }
        if enable_order_hint {
            r.f(3);
        }
    }
    r.f(1); // enable_superres
    r.f(1); // enable_cdef
    r.f(1); // enable_restoration
    // color_config()
    let high_bitdepth = r.f(1) == 1;
    let mut twelve_bit = false;
    if seq_profile == 2 && high_bitdepth {
        twelve_bit = r.f(1) == 1;
    }
    let bit_depth = if seq_profile == 2 && high_bitdepth { if twelve_bit { 12 } else { 10 } } else if high_bitdepth { 10 } else { 8 };
    let mono_chrome = if seq_profile == 1 { false } else { r.f(1) == 1 };
    let color_description = r.f(1) == 1;
    let (cp, tc, mc) = if color_description { (r.f(8), r.f(8), r.f(8)) } else { (2, 2, 2) };
    let (mut ssx, mut ssy, mut csp) = (false, false, 0u8);
    if mono_chrome {
        r.f(1); // color_range
        ssx = true;
        ssy = true;
        // chroma_sample_position = CSP_UNKNOWN, separate_uv_delta_q = 0: nothing more is coded
    } else {
        if cp == 1 && tc == 13 && mc == 0 {
            // sRGB: color_range = 1, 4:4:4
        } else {
            r.f(1); // color_range
            if seq_profile == 0 {
                ssx = true;
                ssy = true;
            } else if seq_profile == 1 {
                // 4:4:4
            } else if bit_depth == 12 {
                ssx = r.f(1) == 1;
                ssy = if ssx { r.f(1) == 1 } else { false };
            } else {
                ssx = true;
            }
            if ssx && ssy {
                csp = r.f(2) as u8;
            }
        }
        r.f(1); // separate_uv_delta_q
    }
    r.f(1); // film_grain_params_present
    if out_of_scope {
        // (decided before truncation: once out of scope the rest of this parse is not meaningful)
        return RefResult::OutOfScope;
    }
    if !r.ok {
        return RefResult::Truncated;
    }
    if seq_profile > 2 {
        return RefResult::OutOfScope;
    }
    RefResult::Parsed(RefSeq {
        seq_profile,
        seq_level_idx0: level,
        seq_tier0: tier,
        high_bitdepth,
        twelve_bit,
        mono_chrome,
        subsampling_x: ssx,
        subsampling_y: ssy,
        chroma_sample_position: csp,
        reduced,
        timing_info,
        decoder_model,
        color_description,
    })
}
