//! Reference model of Annex B framing, written from the property text:
//! a start code *starts* at p iff 00 00 01 or 00 00 00 01 begins at p; the
//! scanner must report the least such p >= from and prefer the 4-byte form.
//! Units are the byte runs after each start code up to the next start code
//! (searched from the end of the current code) or the end of input.

/// Does a 4-byte start code begin at p?
#[inline]
pub fn sc4_at(d: &[u8], p: usize) -> bool {
    p + 4 <= d.len() && d[p] == 0 && d[p + 1] == 0 && d[p + 2] == 0 && d[p + 3] == 1
}

/// Does a 3-byte start code begin at p?
#[inline]
pub fn sc3_at(d: &[u8], p: usize) -> bool {
    p + 3 <= d.len() && d[p] == 0 && d[p + 1] == 0 && d[p + 2] == 1
}

#[inline]
pub fn sc_at(d: &[u8], p: usize) -> bool {
    sc4_at(d, p) || sc3_at(d, p)
}

/// Reference scanner (position predicate, no shared scanning state with the
/// implementation): least p >= from with a start code; length 4 iff the 4-byte
/// pattern begins at p.
pub fn ref_find(d: &[u8], from: usize) -> Option<(usize, usize)> {
    let mut p = from;
    while p < d.len() {
        if sc_at(d, p) {
            return Some((p, if sc4_at(d, p) { 4 } else { 3 }));
        }
        p += 1;
    }
    None
}

/// Reference unit list as (start, end) ranges, at most `MAXU` units.
pub const MAXU: usize = 5;
pub fn ref_units(d: &[u8]) -> ([(usize, usize); MAXU], usize) {
    let mut out = [(0usize, 0usize); MAXU];
    let mut n = 0usize;
    let mut cursor = 0usize;
    while n < MAXU {
        match ref_find(d, cursor) {
            None => break,
            Some((p, l)) => {
                let s = p + l;
                let e = match ref_find(d, s) {
                    Some((q, _)) => q,
                    None => d.len(),
                };
                out[n] = (s, e);
                n += 1;
                cursor = e;
            }
        }
    }
    (out, n)
}

/// Expected conversion output per the property text (4-byte big-endian length +
/// payload for every non-empty reference unit; the whole input as one record when
/// that yields nothing), into a fixed array of capacity M. Lengths < 256.
pub fn ref_conv<const L: usize, const M: usize>(d: &[u8]) -> ([u8; M], usize) {
    let (units, n) = ref_units(d);
    let mut e = [0u8; M];
    let mut pos = 0usize;
    let mut k = 0usize;
    while k < n {
        let (s, en) = units[k];
        if en > s {
            let l = en - s;
            e[pos + 3] = l as u8;
            let mut j = 0usize;
            while j < l {
                e[pos + 4 + j] = d[s + j];
                j += 1;
            }
            pos += 4 + l;
        }
        k += 1;
    }
    if pos == 0 && L > 0 {
        e[3] = L as u8;
        let mut j = 0usize;
        while j < L {
            e[4 + j] = d[j];
            j += 1;
        }
        pos = 4 + L;
    }
    (e, pos)
}
