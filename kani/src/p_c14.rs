//! C14 — re-framing (Annex B -> length-prefixed NALs, ADTS -> raw AAC) is exact.
use crate::ref_annexb::*;
use crate::stubs::*;
use muxide::codec::common::{find_start_code, AnnexBNalIter};
use muxide::codec::h264::annexb_to_avcc;
use muxide::codec::h265::hevc_annexb_to_hvcc;
use muxide::verif_hooks::mp4::verif as mp4h;

// ---------------------------------------------------------------------------
// (a) find_start_code == reference position predicate, symbolic length/from
// ---------------------------------------------------------------------------
fn fsc_body<const N: usize>() {
    let buf: [u8; N] = kani::any();
    let len: usize = kani::any();
    kani::assume(len <= N);
    let from: usize = kani::any();
    let d = &buf[..len];
    let got = find_start_code(d, from);
    let want = ref_find(d, from);
    match (got, want) {
        (None, None) => {}
        (Some((gp, gl)), Some((wp, wl))) => {
            assert!(gp == wp, "start code position differs from reference");
            assert!(gl == wl, "start code length differs from reference");
        }
        _ => panic!("start code presence differs from reference"),
    }
    crate::vcover!(matches!(got, Some((_, 4))), "4-byte code found");
    crate::vcover!(matches!(got, Some((_, 3))), "3-byte code found");
    crate::vcover!(got.is_none() && len >= 3, "no code in >=3 bytes");
    crate::vcover!(matches!(got, Some((p, _)) if p > from), "code found past from");
}

//@ prop=C14 tier=quick cost=8 fns="codec::common::find_start_code" bound="all byte strings of length 0..=6, any from: usize" unwind=9
#[kani::proof]
#[kani::unwind(9)]
pub fn c14_fsc_len0to6() {
    fsc_body::<6>();
}

//@ prop=C14 tier=thorough cost=17 fns="codec::common::find_start_code" bound="all byte strings of length 0..=10, any from: usize" unwind=13
#[kani::proof]
#[kani::unwind(13)]
pub fn c14_fsc_len0to10() {
    fsc_body::<10>();
}

// ---------------------------------------------------------------------------
// (b) AnnexBNalIter yields exactly the reference unit list, as sub-slices
// ---------------------------------------------------------------------------
fn iter_body<const L: usize, const CALLS: usize>() {
    let buf: [u8; L] = kani::any();
    let d = &buf[..];
    let (units, n) = ref_units(d);
    let mut it = AnnexBNalIter::new(d);
    let base = d.as_ptr() as usize;
    let mut k = 0usize;
    // CALLS = max possible units + 1 (each unit needs a >=3-byte code).
    while k < CALLS {
        let got = it.next();
        if k < n {
            match got {
                None => panic!("iterator ended before the reference unit list"),
                Some(nal) => {
                    let (s, e) = units[k];
                    assert!(nal.as_ptr() as usize - base == s, "unit start differs");
                    assert!(nal.len() == e - s, "unit length differs");
                }
            }
        } else {
            assert!(got.is_none(), "iterator yields more units than the reference");
        }
        k += 1;
    }
    crate::vcover!(n >= 2, "two or more units");
    crate::vcover!(n >= 1 && units[0].0 == units[0].1, "empty unit (adjacent codes)");
    crate::vcover!(n == 0 && L >= 3, "no unit");
}

macro_rules! iter_h {
    ($name:ident, $l:expr, $calls:expr, $unw:expr) => {
        #[kani::proof]
        #[kani::unwind($unw)]
        pub fn $name() {
            iter_body::<$l, $calls>();
        }
    };
}
//@ prop=C14 tier=quick cost=60 fns="AnnexBNalIter::next,find_start_code" bound="all byte strings of length 4" unwind=7 covers_optional="two or more"
iter_h!(c14_iter_len4, 4, 2, 7);
//@ prop=C14 tier=quick cost=44 fns="AnnexBNalIter::next,find_start_code" bound="all byte strings of length 6" unwind=9
iter_h!(c14_iter_len6, 6, 3, 9);
//@ prop=C14 tier=thorough cost=57 fns="AnnexBNalIter::next,find_start_code" bound="all byte strings of length 7" unwind=10
iter_h!(c14_iter_len7, 7, 3, 10);
//@ prop=C14 tier=thorough cost=74 fns="AnnexBNalIter::next,find_start_code" bound="all byte strings of length 8" unwind=11
iter_h!(c14_iter_len8, 8, 3, 11);
//@ prop=C14 tier=thorough cost=33 fns="AnnexBNalIter::next,find_start_code" bound="all byte strings of length 5" unwind=8 covers_optional="two or more"
iter_h!(c14_iter_len5, 5, 2, 8);
//@ prop=C14 tier=thorough cost=24 fns="AnnexBNalIter::next,find_start_code" bound="all byte strings of length 3" unwind=6 covers_optional="two or more"
iter_h!(c14_iter_len3, 3, 2, 6);

// ---------------------------------------------------------------------------
// (c) annexb_to_avcc / hevc_annexb_to_hvcc append exactly: for every non-empty
//     reference unit a 4-byte big-endian length then the unit itself (as a
//     sub-slice of the input), in order; or, when that appends nothing and the
//     input is non-empty, the input length and the whole input.
//     Vec::extend_from_slice is replaced by a recording stand-in (stubs.rs), so
//     the claim is about WHAT is appended; std's copy itself is trusted.
// ---------------------------------------------------------------------------
fn conv_body<const L: usize>(f: fn(&[u8]) -> Vec<u8>) {
    use crate::stubs::*;
    let buf: [u8; L] = kani::any();
    let d = &buf[..];
    let base = d.as_ptr() as usize;
    let out = f(d);
    if crate::fin::replay_mode() {
        // native replay of a counterexample: Kani's playback does not apply the recording stand-in, so the
        // append log is empty; judge the REAL output bytes against the reference conversion instead
        let (exp, elen) = ref_conv::<L, 64>(d);
        assert!(out.len() == elen && out[..] == exp[..elen], "native replay: converted bytes differ from the reference framing");
        return;
    }
    let (units, n) = ref_units(d);
    let mut k = 0usize;
    let mut a = 0usize;
    let mut total = 0usize;
    while k < n {
        let (s, e) = units[k];
        if e > s {
            unsafe {
                assert!(a + 1 < APPEND_LOG_MAX);
                assert!(APPEND_LOG[a].len == 4, "length prefix is not 4 bytes");
                // bytewise: `head == [..]` (raw_eq/memcmp on a field of a static array element) gave a spurious
                // FAILED for the first two-unit length (8) that the same comparison spelled per byte does not
                let hd = APPEND_LOG[a].head;
                assert!(hd[0] == 0 && hd[1] == 0 && hd[2] == 0 && hd[3] == (e - s) as u8, "length prefix value differs");
                assert!(APPEND_LOG[a + 1].addr == base + s, "appended unit does not start at the reference unit");
                assert!(APPEND_LOG[a + 1].len == e - s, "appended unit length differs");
            }
            a += 2;
            total += 4 + (e - s);
        }
        k += 1;
    }
    if a == 0 && L > 0 {
        unsafe {
            assert!(APPEND_N == 2, "fallback must append exactly one record");
            let hd = APPEND_LOG[0].head;
            assert!(APPEND_LOG[0].len == 4 && hd[0] == 0 && hd[1] == 0 && hd[2] == 0 && hd[3] == L as u8, "fallback length prefix differs");
            assert!(APPEND_LOG[1].addr == base && APPEND_LOG[1].len == L, "fallback payload is not the whole input");
        }
        total = 4 + L;
    } else {
        unsafe {
            assert!(APPEND_N == a, "more or fewer appends than reference units");
        }
    }
    assert!(out.len() == total, "output length differs");
    crate::vcover!(a >= 4, "two non-empty units framed");
    crate::vcover!(a == 2, "one non-empty unit framed");
    crate::vcover!(n >= 1 && a == 0, "only empty units -> whole-input fallback");
    crate::vcover!(n == 0 && L > 0, "no start code -> whole-input fallback");
    crate::vcover!(n >= 2 && a == 2, "an empty unit is skipped next to a framed one");
    core::mem::forget(out);
}

macro_rules! conv_h {
    ($name:ident, $f:path, $l:expr, $unw:expr) => {
        #[kani::proof]
        #[kani::unwind($unw)]
        #[kani::stub(alloc::vec::Vec::extend_from_slice, crate::stubs::extend_from_slice_recording_stub)]
        pub fn $name() {
            conv_body::<$l>($f);
        }
    };
}
//@ prop=C14 tier=quick cost=36 fns="codec::h264::annexb_to_avcc,AnnexBNalIter::next,find_start_code" bound="all byte strings of length 3" unwind=7 stubs="Vec::extend_from_slice(recording)" covers_optional="two non-empty|one non-empty|skipped next"
conv_h!(c14_avcc_len3, annexb_to_avcc, 3, 7);
//@ prop=C14 tier=quick cost=61 fns="codec::h264::annexb_to_avcc,AnnexBNalIter::next,find_start_code" bound="all byte strings of length 4" unwind=7 stubs="Vec::extend_from_slice(recording)" covers_optional="two non-empty|skipped next"
conv_h!(c14_avcc_len4, annexb_to_avcc, 4, 7);
//@ prop=C14 tier=quick cost=80 fns="codec::h264::annexb_to_avcc,AnnexBNalIter::next,find_start_code" bound="all byte strings of length 6" unwind=8 stubs="Vec::extend_from_slice(recording)" covers_optional="two non-empty|skipped next"
conv_h!(c14_avcc_len6, annexb_to_avcc, 6, 8);
//@ prop=C14 tier=quick cost=80 fns="codec::h265::hevc_annexb_to_hvcc,AnnexBNalIter::next,find_start_code" bound="all byte strings of length 6" unwind=8 stubs="Vec::extend_from_slice(recording)" covers_optional="two non-empty|skipped next"
conv_h!(c14_hvcc_len6, hevc_annexb_to_hvcc, 6, 8);
//@ prop=C14 tier=thorough cost=5 fns="codec::h264::annexb_to_avcc" bound="all byte strings of length 1" unwind=7 stubs="Vec::extend_from_slice(recording)" covers_optional="*"
conv_h!(c14_avcc_len1, annexb_to_avcc, 1, 7);
//@ prop=C14 tier=thorough cost=5 fns="codec::h264::annexb_to_avcc" bound="all byte strings of length 2" unwind=7 stubs="Vec::extend_from_slice(recording)" covers_optional="*"
conv_h!(c14_avcc_len2, annexb_to_avcc, 2, 7);
//@ prop=C14 tier=thorough cost=50 fns="codec::h264::annexb_to_avcc,AnnexBNalIter::next,find_start_code" bound="all byte strings of length 5" unwind=7 stubs="Vec::extend_from_slice(recording)" covers_optional="two non-empty|skipped next"
conv_h!(c14_avcc_len5, annexb_to_avcc, 5, 7);
//@ prop=C14 tier=thorough cost=111 fns="codec::h264::annexb_to_avcc,AnnexBNalIter::next,find_start_code" bound="all byte strings of length 7" unwind=9 stubs="Vec::extend_from_slice(recording)" covers_optional="two non-empty"
conv_h!(c14_avcc_len7, annexb_to_avcc, 7, 9);
//@ prop=C14 tier=thorough cost=177 fns="codec::h264::annexb_to_avcc,AnnexBNalIter::next,find_start_code" bound="all byte strings of length 8" unwind=10 stubs="Vec::extend_from_slice(recording)"
conv_h!(c14_avcc_len8, annexb_to_avcc, 8, 10);
//@ prop=C14 tier=thorough cost=64 fns="codec::h265::hevc_annexb_to_hvcc,AnnexBNalIter::next,find_start_code" bound="all byte strings of length 4" unwind=7 stubs="Vec::extend_from_slice(recording)" covers_optional="two non-empty|skipped next"
conv_h!(c14_hvcc_len4, hevc_annexb_to_hvcc, 4, 7);
//@ prop=C14 tier=thorough cost=176 fns="codec::h265::hevc_annexb_to_hvcc,AnnexBNalIter::next,find_start_code" bound="all byte strings of length 8" unwind=10 stubs="Vec::extend_from_slice(recording)"
conv_h!(c14_hvcc_len8, hevc_annexb_to_hvcc, 8, 10);
//@ prop=C14 tier=thorough cost=5 fns="codec::h264::annexb_to_avcc,codec::h265::hevc_annexb_to_hvcc" bound="the empty byte string" unwind=7
#[kani::proof]
#[kani::unwind(7)]
pub fn c14_conv_empty() {
    let a = annexb_to_avcc(&[]);
    let b = hevc_annexb_to_hvcc(&[]);
    assert!(a.is_empty() && b.is_empty());
    crate::vcover!(true, "reached");
}

// ---------------------------------------------------------------------------
// (d) adts_to_raw: accept iff reference predicate; slice == frame[hdr..declared]
// ---------------------------------------------------------------------------
fn adts_body<const L: usize>() {
    let buf: [u8; L] = kani::any();
    let d = &buf[..];
    let r = mp4h::adts_to_raw(d);
    // reference (ISO 14496-3 adts_fixed_header / adts_variable_header)
    let mut want: Option<(usize, usize)> = None;
    if L >= 7 {
        let sync = d[0] == 0xFF && (d[1] & 0xF0) == 0xF0;
        let mpeg4 = (d[1] >> 3) & 1 == 0;
        let layer0 = (d[1] >> 1) & 3 == 0;
        let hdr = if d[1] & 1 == 1 { 7usize } else { 9usize };
        let sfi = (d[2] >> 2) & 0x0F;
        let chan = ((d[2] & 1) << 2) | (d[3] >> 6);
        let flen = (((d[3] & 3) as usize) << 11) | ((d[4] as usize) << 3) | ((d[5] as usize) >> 5);
        if sync && mpeg4 && layer0 && L >= hdr && sfi <= 12 && chan >= 1 && chan <= 7 && flen >= hdr && flen <= L {
            want = Some((hdr, flen));
        }
    }
    match (&r, want) {
        (Ok(raw), Some((hdr, flen))) => {
            assert!(raw.as_ptr() as usize - d.as_ptr() as usize == hdr, "payload start differs");
            assert!(raw.len() == flen - hdr, "payload length differs");
        }
        (Err(_), None) => {}
        (Ok(_), None) => panic!("accepted a frame the reference rejects"),
        (Err(_), Some(_)) => panic!("rejected a frame the reference accepts"),
    }
    crate::vcover!(matches!(want, Some((7, _))), "accepted, unprotected");
    crate::vcover!(matches!(want, Some((9, _))), "accepted, CRC-protected");
    crate::vcover!(matches!(want, Some((h, f)) if f == h), "accepted with empty payload");
    crate::vcover!(matches!(want, Some((h, f)) if f > h), "accepted with payload");
    crate::vcover!(r.is_err() && L >= 7, "rejected >=7 bytes");
    core::mem::forget(r);
}

macro_rules! adts_h {
    ($name:ident, $l:expr) => {
        #[kani::proof]
        #[kani::unwind(14)]
        #[kani::stub(alloc::fmt::format, crate::stubs::format_stub)]
        #[kani::stub(alloc::string::String::push_str, crate::stubs::string_push_str_stub)]
        #[kani::stub(alloc::string::String::push, crate::stubs::string_push_stub)]
        pub fn $name() {
            adts_body::<$l>();
        }
    };
}
//@ prop=C14 tier=quick fns="muxer::mp4::adts_to_raw" bound="all buffers of length 9 (all 2^72 headers)" stubs="fmt::format,String::push_str,String::push" cost=60 covers_optional="accepted, CRC-protected|accepted with payload"
adts_h!(c14_adts_len9, 9);
//@ prop=C14 tier=quick fns="muxer::mp4::adts_to_raw" bound="all buffers of length 11" stubs="fmt::format,String::push_str,String::push" cost=60
adts_h!(c14_adts_len11, 11);
//@ prop=C14 tier=quick fns="muxer::mp4::adts_to_raw" bound="all buffers of length 7" stubs="fmt::format,String::push_str,String::push" cost=60 covers_optional="accepted, CRC-protected|accepted with payload"
adts_h!(c14_adts_len7, 7);
//@ prop=C14 tier=thorough fns="muxer::mp4::adts_to_raw" bound="all buffers of length 6" stubs="fmt::format,String::push_str,String::push" cost=10 covers_optional="*"
adts_h!(c14_adts_len6, 6);
//@ prop=C14 tier=thorough fns="muxer::mp4::adts_to_raw" bound="all buffers of length 8" stubs="fmt::format,String::push_str,String::push" cost=90 covers_optional="accepted, CRC-protected"
adts_h!(c14_adts_len8, 8);
//@ prop=C14 tier=thorough fns="muxer::mp4::adts_to_raw" bound="all buffers of length 10" stubs="fmt::format,String::push_str,String::push" cost=93
adts_h!(c14_adts_len10, 10);
//@ prop=C14 tier=thorough fns="muxer::mp4::adts_to_raw" bound="all buffers of length 12" stubs="fmt::format,String::push_str,String::push" cost=90
adts_h!(c14_adts_len12, 12);
