use crate::fin::*;
use muxide::verif_hooks::mp4::verif as mp4h;
#[kani::proof]
#[kani::unwind(5)]
#[kani::stub(muxide::invariant_ppt::__assert_invariant_impl, crate::stubs::assert_invariant_stub)]
#[kani::stub(muxide::muxer::mp4::build_moov_box, muxide::verif_hooks::mp4::verif::moov_recording_stub)]
pub fn x_fin_v2_u5() {
    let vpts: [u64; 2] = kani::any();
    reset_moov_stub(4);
    let mut w = build_writer::<2, 0>(RecSink::new(), vpts, [true, false], [], false);
    let r = w.finalize(&VIDEO, None, false);
    assert!(r.is_ok());
    core::mem::forget((w, r));
}
