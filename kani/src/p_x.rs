use crate::fin::*;
use muxide::verif_hooks::mp4::verif as mp4h;
#[kani::proof]
#[kani::unwind(5)]
#[kani::stub(muxide::invariant_ppt::__assert_invariant_impl, crate::stubs::assert_invariant_stub)]
#[kani::stub(muxide::muxer::mp4::build_moov_box, muxide::verif_hooks::mp4::verif::moov_recording_stub)]
pub fn x_fault_only() {
    no_carrier();
    let mut sink = RecSink::new();
    sink.fault_at = 3;
    sink.fault_fail = kani::any();
    sink.fault_intr = kani::any();
    sink.fault_accept = kani::any();
    let mut w = build_writer::<2, 0>(sink, [0, 3000], [true, false], [], false);
    let r = w.finalize(&VIDEO, None, false);
    let s = mp4h::sink(&w);
    assert!(r.is_err() == s.failed);
    core::mem::forget((w, r));
}
#[kani::proof]
#[kani::unwind(5)]
#[kani::stub(muxide::invariant_ppt::__assert_invariant_impl, crate::stubs::assert_invariant_stub)]
#[kani::stub(muxide::muxer::mp4::build_moov_box, muxide::verif_hooks::mp4::verif::moov_recording_stub)]
pub fn x_fault_failonly() {
    no_carrier();
    let mut sink = RecSink::new();
    sink.fault_at = 3;
    sink.fault_fail = kani::any();
    let mut w = build_writer::<2, 0>(sink, [0, 3000], [true, false], [], false);
    let r = w.finalize(&VIDEO, None, false);
    let s = mp4h::sink(&w);
    assert!(r.is_err() == s.failed);
    core::mem::forget((w, r));
}
