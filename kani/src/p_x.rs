use crate::bx::*;
use muxide::verif_hooks::mp4::verif as mp4h;
#[kani::proof]
#[kani::unwind(22)]
pub fn x_fmt_day0() {
    let t: u64 = kani::any();
    kani::assume(t < 86400);
    let s = mp4h::format_unix_timestamp(t);
    assert!(s.len() == 20);
    let b = snap::<20>(s.as_bytes());
    assert!(b[10] == b'T' && b[19] == b'Z');
    let hh = (b[11] - b'0') as u64 * 10 + (b[12] - b'0') as u64;
    assert!(hh == t / 3600);
    core::mem::forget(s);
}
