// scratch
