use crate::bx::*;
use muxide::verif_hooks::mp4::verif as mp4h;
#[kani::proof]
#[kani::unwind(30)]
#[kani::stub(muxide::invariant_ppt::__assert_invariant_impl, crate::stubs::assert_invariant_stub)]
pub fn x_mvhd_nocheck() {
    let d: u32 = kani::any();
    let p = mp4h::build_mvhd_payload(d);
    assert!(p.len() == 100);
}
#[kani::proof]
#[kani::unwind(30)]
#[kani::stub(muxide::invariant_ppt::__assert_invariant_impl, crate::stubs::assert_invariant_stub)]
pub fn x_mvhd_payload_check() {
    let d: u32 = kani::any();
    let p = mp4h::build_mvhd_payload(d);
    assert!(p.len() == 100);
    assert!(be32(&p, 16) == d);
    assert!(be32(&p, 96) == 2);
}
#[kani::proof]
#[kani::unwind(30)]
#[kani::stub(muxide::invariant_ppt::__assert_invariant_impl, crate::stubs::assert_invariant_stub)]
pub fn x_mvhd_box_nocheck() {
    let d: u32 = kani::any();
    let p = mp4h::build_mvhd_payload(d);
    let b = mp4h::build_box(b"mvhd", &p);
    assert!(b.len() == 108);
}
#[kani::proof]
#[kani::unwind(30)]
#[kani::stub(muxide::invariant_ppt::__assert_invariant_impl, crate::stubs::assert_invariant_stub)]
pub fn x_mvhd_copy_check() {
    let d: u32 = kani::any();
    let p = mp4h::build_mvhd_payload(d);
    let b = mp4h::build_box(b"mvhd", &p);
    assert!(b.len() == 108);
    let mut a = [0u8; 108];
    a.copy_from_slice(&b);
    let v = &a[..];
    assert!(box_is(v, 0, 108, b"mvhd"));
    assert!(be32(v, 8) == 0, "version 0 / flags 0");
    assert!(be32(v, 20) == 1000, "timescale field");
    assert!(be32(v, 24) == d, "duration field");
    assert!(be32(v, 28) == 0x0001_0000, "rate 1.0");
    assert!(be16(v, 32) == 0x0100, "volume 1.0");
    assert!(zeros(v, 34, 44), "reserved");
    assert!(identity_matrix(v, 44), "identity matrix");
    assert!(zeros(v, 80, 104), "pre_defined");
}
