//! Shared scaffolding for the API single-step harnesses (C04, C05, C12): prefix states
//! built through the real public API with concrete arguments, one symbolic call, and
//! the executable reference contract.
#![cfg(kani)]
use muxide::api::verif as apih;
use muxide::api::{AacProfile, AudioCodec, Muxer, MuxerBuilder, MuxerError, VideoCodec};
use muxide::verif_hooks::mp4::verif as mp4h;

pub struct NullSink;
impl std::io::Write for NullSink {
    fn write(&mut self, b: &[u8]) -> std::io::Result<usize> {
        Ok(b.len())
    }
    fn flush(&mut self) -> std::io::Result<()> {
        Ok(())
    }
}

pub const VP9_KEY: [u8; 10] = [0x49, 0x83, 0x42, 0x00, 0x00, 0x3f, 0x3f, 0x00, 0x00, 0x00];
pub const VP9_DELTA: [u8; 4] = [0x49, 0x83, 0x42, 0x10];
/// OBU_SEQUENCE_HEADER (type 1, has_size) with a 5-byte payload that parses: profile 0,
/// reduced_still_picture_header = 1, level 0, 1x1 frame, 8-bit 4:2:0.
pub const AV1_KEY: [u8; 7] = [0x0a, 0x05, 0x18, 0x00, 0x00, 0x00, 0x00];
pub const H264_KEY: [u8; 15] = [0, 0, 0, 1, 0x67, 0x42, 0, 0x1e, 0, 0, 1, 0x68, 0xce, 0, 0];
pub const OPUS_PKT: [u8; 2] = [0x08, 0x01];
/// ADTS: sync fff, MPEG-4, layer 0, protection absent, LC, 44.1 kHz (idx 4), 2 ch, length 9
pub const ADTS_PKT: [u8; 9] = [0xff, 0xf1, 0x50, 0x80, 0x01, 0x20, 0x00, 0xaa, 0xbb];

#[derive(Clone, Copy, PartialEq, Eq)]
pub enum Aud {
    None,
    Opus,
    Aac,
}

pub fn new_muxer(codec: VideoCodec, aud: Aud) -> Muxer<NullSink> {
    let b = MuxerBuilder::new(NullSink).video(codec, 64, 48, 30.0);
    let b = match aud {
        Aud::None => b,
        Aud::Opus => b.audio(AudioCodec::Opus, 48000, 2),
        Aud::Aac => b.audio(AudioCodec::Aac(AacProfile::Lc), 44100, 2),
    };
    match b.build() {
        Ok(m) => m,
        Err(_) => panic!("builder with video must succeed"),
    }
}

pub fn key_frame(codec: VideoCodec) -> &'static [u8] {
    match codec {
        VideoCodec::Vp9 => &VP9_KEY,
        VideoCodec::Av1 => &AV1_KEY,
        VideoCodec::H264 => &H264_KEY,
        VideoCodec::H265 => &H264_KEY, // not used as a valid key for H265
    }
}

/// Complete observable state: every scalar of Muxer and Mp4Writer plus the last samples.
#[derive(Clone, Copy, PartialEq)]
pub struct Full {
    pub m: apih::MuxerDigest,
    pub w: mp4h::WriterDigest,
    pub v_prev: Option<mp4h::SampleDigest>,
}
pub fn full<W>(m: &Muxer<W>) -> Full {
    let w = apih::writer(m);
    let wd = mp4h::writer_digest(w);
    let v_prev = if wd.video_count >= 2 { mp4h::video_sample_digest(w, wd.video_count - 2) } else { None };
    Full { m: apih::muxer_digest(m), w: wd, v_prev }
}

/// error classes of the documented contract
#[derive(Clone, Copy, PartialEq, Eq, Debug)]
pub enum Cls {
    Ok,
    Finished,
    Empty,
    NotFinite,
    Negative,
    NotIncreasing,
    AudioBeforeVideo,
    AudioNotConfigured,
    FirstNotKey,
    MissingConfig,
    BadAudioFraming,
    GapTooLarge,
    OtherIo,
    MissingVideoConfig,
}
pub fn classify(r: &Result<(), MuxerError>) -> Cls {
    match r {
        Ok(()) => Cls::Ok,
        Err(e) => match e {
            MuxerError::AlreadyFinished => Cls::Finished,
            MuxerError::EmptyVideoFrame { .. } | MuxerError::EmptyAudioFrame { .. } => Cls::Empty,
            MuxerError::InvalidVideoPts { .. } | MuxerError::InvalidVideoDts { .. } | MuxerError::InvalidAudioPts { .. } => Cls::NotFinite,
            MuxerError::NegativeVideoPts { .. } | MuxerError::NegativeVideoDts { .. } | MuxerError::NegativeAudioPts { .. } => Cls::Negative,
            MuxerError::NonIncreasingVideoPts { .. } | MuxerError::NonIncreasingDts { .. } | MuxerError::DecreasingAudioPts { .. } => Cls::NotIncreasing,
            MuxerError::AudioBeforeFirstVideo { .. } => Cls::AudioBeforeVideo,
            MuxerError::AudioNotConfigured => Cls::AudioNotConfigured,
            MuxerError::FirstVideoFrameMustBeKeyframe => Cls::FirstNotKey,
            MuxerError::FirstVideoFrameMissingSpsPps | MuxerError::FirstAv1FrameMissingSequenceHeader | MuxerError::FirstVp9FrameMissingSequenceHeader => Cls::MissingConfig,
            MuxerError::InvalidAdts { .. } | MuxerError::InvalidAdtsDetailed { .. } | MuxerError::InvalidOpusPacket { .. } => Cls::BadAudioFraming,
            MuxerError::Io(_) => Cls::GapTooLarge,
            MuxerError::MissingVideoConfig => Cls::MissingVideoConfig,
        },
    }
}

pub const TICK: f64 = 1.0 / 90000.0;
/// seconds that correspond to a 32-bit tick gap
pub const GAP32: f64 = 4294967296.0 / 90000.0;
