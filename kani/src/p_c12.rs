//! C12 — no public entry point panics, overflows, indexes out of bounds or hangs.
//! Every harness: all arguments symbolic inside the stated shape bound; Kani's
//! default checks (panic, overflow, bounds, pointer, unwinding) are the assertion.
use crate::stubs::*;
use muxide::api::{AacProfile, AudioCodec, VideoCodec};
use muxide::codec::{av1, common, h264, h265, opus, vp9};

fn any_video_codec() -> VideoCodec {
    match kani::any::<u8>() & 3 {
        0 => VideoCodec::H264,
        1 => VideoCodec::H265,
        2 => VideoCodec::Av1,
        _ => VideoCodec::Vp9,
    }
}

// ---------------------------------------------------------------------------
// pure slice parsers: symbolic contents AND symbolic length 0..=N
// ---------------------------------------------------------------------------
macro_rules! slice_h {
    ($name:ident, $n:expr, $unw:expr, |$d:ident| $body:block) => {
        #[kani::proof]
        #[kani::unwind($unw)]
        #[kani::stub(muxide::invariant_ppt::__assert_invariant_impl, crate::stubs::assert_invariant_stub)]
        pub fn $name() {
            let buf: [u8; $n] = kani::any();
            let len: usize = kani::any();
            kani::assume(len <= $n);
            let $d: &[u8] = &buf[..len];
            $body;
            kani::cover!(len == $n, "full length reached");
            kani::cover!(len == 0, "empty input reached");
        }
    };
}

//@ prop=C12 tier=quick cost=30 fns="codec::h264::is_h264_keyframe,AnnexBNalIter::next,find_start_code" bound="all byte strings of length 0..=7" unwind=10 stubs="assert_invariant(panic-only)"
slice_h!(c12_h264_is_keyframe, 7, 10, |d| {
    let _ = h264::is_h264_keyframe(d);
});

//@ prop=C12 tier=quick cost=10 fns="codec::h265::hevc_nal_type,is_hevc_keyframe_nal_type" bound="all byte strings of length 0..=2, all u8" unwind=4
slice_h!(c12_h265_nal_type, 2, 4, |d| {
    let t = h265::hevc_nal_type(d);
    assert!(t <= 63);
    let _ = h265::is_hevc_keyframe_nal_type(kani::any());
});

//@ prop=C12 tier=quick cost=20 fns="codec::av1::read_leb128,obu_type,obu_has_extension,obu_has_size" bound="all byte strings of length 0..=10" unwind=12
slice_h!(c12_av1_leb128, 10, 12, |d| {
    if let Some((_v, n)) = av1::read_leb128(d) {
        assert!(n >= 1 && n <= 8 && n <= d.len());
    }
    let b: u8 = kani::any();
    assert!(av1::obu_type(b) <= 15);
    let _ = av1::obu_has_extension(b);
    let _ = av1::obu_has_size(b);
});

//@ prop=C12 tier=quick cost=30 fns="codec::av1::parse_obu_header,read_leb128" bound="all byte strings of length 0..=10" unwind=12
slice_h!(c12_av1_obu_header, 10, 12, |d| {
    if let Some(info) = av1::parse_obu_header(d) {
        assert!(info.header_size >= 1 && info.header_size <= 10);
        assert!(info.total_size == info.header_size + info.payload_size);
    }
});

//@ prop=C12 tier=quick cost=60 fns="codec::av1::ObuIter::next,parse_obu_header" bound="all byte strings of length 0..=6, up to 7 next() calls" unwind=10
slice_h!(c12_av1_obu_iter, 6, 10, |d| {
    let mut it = av1::ObuIter::new(d);
    let mut total = 0usize;
    let mut k = 0;
    while k < 7 {
        match it.next() {
            Some((info, obu)) => {
                assert!(obu.len() == info.total_size);
                assert!(obu.len() >= 1);
                total += obu.len();
                assert!(total <= d.len());
            }
            None => {}
        }
        k += 1;
    }
});

//@ prop=C12 tier=quick cost=60 fns="codec::av1::is_av1_keyframe,ObuIter::next,BitReader" bound="all byte strings of length 0..=6" unwind=9
slice_h!(c12_av1_is_keyframe, 6, 9, |d| {
    let _ = av1::is_av1_keyframe(d);
});

//@ prop=C12 tier=quick cost=20 fns="codec::vp9::is_vp9_keyframe,is_valid_vp9_frame" bound="all byte strings of length 0..=6" unwind=3 stubs="assert_invariant(panic-only)"
slice_h!(c12_vp9_is_keyframe, 6, 3, |d| {
    let r = vp9::is_vp9_keyframe(d);
    core::mem::forget(r);
    let _ = vp9::is_valid_vp9_frame(d);
});

//@ prop=C12 tier=quick cost=60 fns="codec::vp9::extract_vp9_config,parse_vp9_var_uint,parse_vp9_color_config" bound="all byte strings of length 0..=12" unwind=8 stubs="assert_invariant(panic-only)"
slice_h!(c12_vp9_extract, 12, 8, |d| {
    let r = vp9::extract_vp9_config(d);
    core::mem::forget(r);
});

//@ prop=C12 tier=quick cost=20 fns="codec::opus::opus_frame_duration_from_toc,opus_frame_count,opus_packet_samples,is_valid_opus_packet,OpusFrameDuration::samples,OpusFrameDuration::seconds" bound="all byte strings of length 0..=4, all TOC bytes" unwind=3
slice_h!(c12_opus_all, 4, 3, |d| {
    let toc: u8 = kani::any();
    if let Some(fd) = opus::opus_frame_duration_from_toc(toc) {
        let s = fd.samples();
        assert!(s >= 120 && s <= 2880);
        let _ = fd.seconds();
    }
    let _ = opus::opus_frame_count(d);
    if let Some(n) = opus::opus_packet_samples(d) {
        assert!(n > 0);
    }
    let _ = opus::is_valid_opus_packet(d);
});

//@ prop=C12 tier=quick cost=20 fns="codec::opus::OpusConfig::{default,mono,stereo,with_pre_skip,with_channels}" bound="all u8 channel counts, all u16 pre-skip" unwind=2
#[kani::proof]
#[kani::unwind(2)]
pub fn c12_opus_config() {
    let c = opus::OpusConfig::default().with_channels(kani::any()).with_pre_skip(kani::any());
    let m = opus::OpusConfig::mono();
    let s = opus::OpusConfig::stereo();
    assert!(m.output_channel_count == 1 && s.output_channel_count == 2);
    kani::cover!(c.channel_mapping_family == 1, "mapping family 1");
    core::mem::forget((c, m, s));
}

// ---------------------------------------------------------------------------
// config extraction (allocating): concrete length per instance, symbolic contents
// ---------------------------------------------------------------------------
macro_rules! fixed_h {
    ($name:ident, $n:expr, $unw:expr, |$d:ident| $body:block) => {
        #[kani::proof]
        #[kani::unwind($unw)]
        #[kani::stub(muxide::invariant_ppt::__assert_invariant_impl, crate::stubs::assert_invariant_stub)]
        pub fn $name() {
            let buf: [u8; $n] = kani::any();
            let $d: &[u8] = &buf[..];
            $body;
            kani::cover!(true, "harness end reached");
        }
    };
}

//@ prop=C12 tier=quick cost=5 fns="codec::h265::is_hevc_keyframe,hevc_nal_type,is_hevc_keyframe_nal_type,AnnexBNalIter::next" bound="all byte strings of length 0" unwind=4 stubs="assert_invariant(panic-only)"
fixed_h!(c12_h265_is_keyframe_len0, 0, 4, |d| {
    let _ = h265::is_hevc_keyframe(d);
});
//@ prop=C12 tier=quick cost=5 fns="codec::h265::is_hevc_keyframe,hevc_nal_type,is_hevc_keyframe_nal_type,AnnexBNalIter::next" bound="all byte strings of length 1" unwind=4 stubs="assert_invariant(panic-only)"
fixed_h!(c12_h265_is_keyframe_len1, 1, 4, |d| {
    let _ = h265::is_hevc_keyframe(d);
});
//@ prop=C12 tier=quick cost=10 fns="codec::h265::is_hevc_keyframe,hevc_nal_type,is_hevc_keyframe_nal_type,AnnexBNalIter::next" bound="all byte strings of length 3" unwind=6 stubs="assert_invariant(panic-only)"
fixed_h!(c12_h265_is_keyframe_len3, 3, 6, |d| {
    let _ = h265::is_hevc_keyframe(d);
});
//@ prop=C12 tier=quick cost=30 fns="codec::h265::is_hevc_keyframe,hevc_nal_type,is_hevc_keyframe_nal_type,AnnexBNalIter::next" bound="all byte strings of length 4" unwind=7 stubs="assert_invariant(panic-only)"
fixed_h!(c12_h265_is_keyframe_len4, 4, 7, |d| {
    let _ = h265::is_hevc_keyframe(d);
});
//@ prop=C12 tier=quick cost=90 fns="codec::h265::is_hevc_keyframe,hevc_nal_type,is_hevc_keyframe_nal_type,AnnexBNalIter::next" bound="all byte strings of length 6" unwind=9 stubs="assert_invariant(panic-only)"
fixed_h!(c12_h265_is_keyframe_len6, 6, 9, |d| {
    let _ = h265::is_hevc_keyframe(d);
});
//@ prop=C12 tier=thorough cost=60 fns="codec::h265::is_hevc_keyframe,hevc_nal_type,is_hevc_keyframe_nal_type,AnnexBNalIter::next" bound="all byte strings of length 5" unwind=8 stubs="assert_invariant(panic-only)"
fixed_h!(c12_h265_is_keyframe_len5, 5, 8, |d| {
    let _ = h265::is_hevc_keyframe(d);
});
//@ prop=C12 tier=thorough cost=200 fns="codec::h265::is_hevc_keyframe,hevc_nal_type,is_hevc_keyframe_nal_type,AnnexBNalIter::next" bound="all byte strings of length 7" unwind=10 stubs="assert_invariant(panic-only)"
fixed_h!(c12_h265_is_keyframe_len7, 7, 10, |d| {
    let _ = h265::is_hevc_keyframe(d);
});
//@ prop=C12 tier=quick cost=120 fns="codec::h264::extract_avc_config,AvcConfig::{profile_idc,profile_compatibility,level_idc}" bound="all byte strings of length 8" unwind=11 stubs="assert_invariant(panic-only)"
fixed_h!(c12_h264_extract_len8, 8, 11, |d| {
    let r = h264::extract_avc_config(d);
    if let Some(c) = &r {
        let _ = (c.profile_idc(), c.profile_compatibility(), c.level_idc());
    }
    core::mem::forget(r);
});
//@ prop=C12 tier=thorough cost=60 fns="codec::h264::extract_avc_config" bound="all byte strings of length 5" unwind=8 stubs="assert_invariant(panic-only)"
fixed_h!(c12_h264_extract_len5, 5, 8, |d| {
    let r = h264::extract_avc_config(d);
    core::mem::forget(r);
});
//@ prop=C12 tier=quick cost=5 fns="codec::h264::extract_avc_config,default_avc_config,AvcConfig::new" bound="empty input; default config" unwind=11
#[kani::proof]
#[kani::unwind(11)]
#[kani::stub(muxide::invariant_ppt::__assert_invariant_impl, crate::stubs::assert_invariant_stub)]
pub fn c12_h264_extract_empty() {
    let e: [u8; 0] = [];
    let r = h264::extract_avc_config(&e[..]);
    assert!(r.is_none());
    core::mem::forget(r);
    kani::cover!(true, "reached");
}

//@ prop=C12 tier=quick cost=200 fns="codec::h265::extract_hevc_config,HevcConfig::{general_profile_space,general_tier_flag,general_profile_idc,general_level_idc}" bound="all byte strings of length 9" unwind=12 stubs="assert_invariant(panic-only)" timeout=900
fixed_h!(c12_h265_extract_len9, 9, 12, |d| {
    let r = h265::extract_hevc_config(d);
    if let Some(c) = &r {
        let _ = (c.general_profile_space(), c.general_tier_flag(), c.general_profile_idc(), c.general_level_idc());
    }
    core::mem::forget(r);
});

macro_rules! av1_extract_h {
    ($name:ident, $n:expr, $unw:expr) => {
        fixed_h!($name, $n, $unw, |d| {
            let r = av1::extract_av1_config(d);
            core::mem::forget(r);
        });
    };
}
//@ prop=C12 tier=quick cost=120 fns="codec::av1::extract_av1_config,parse_sequence_header,parse_color_config,skip_uvlc,BitReader,ObuIter::next" bound="all byte strings of length 3" unwind=34 stubs="assert_invariant(panic-only)"
av1_extract_h!(c12_av1_extract_len3, 3, 34);
//@ prop=C12 tier=thorough cost=900 fns="codec::av1::extract_av1_config,parse_sequence_header,parse_color_config,skip_uvlc,BitReader,ObuIter::next" bound="all byte strings of length 4" unwind=34 stubs="assert_invariant(panic-only)"
av1_extract_h!(c12_av1_extract_len4, 4, 34);
//@ prop=C12 tier=thorough cost=600 fns="codec::av1::extract_av1_config,parse_sequence_header,parse_color_config,skip_uvlc,BitReader,ObuIter::next" bound="all byte strings of length 6" unwind=34 stubs="assert_invariant(panic-only)" timeout=3000
av1_extract_h!(c12_av1_extract_len6, 6, 34);
