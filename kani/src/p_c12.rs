//! C12 — no public entry point panics, overflows, indexes out of bounds or hangs.
//! Every harness: all arguments symbolic inside the stated shape bound; Kani's
//! default checks (panic, overflow, bounds, pointer, unwinding) are the assertion.
use crate::stubs::*;
use muxide::api::{AacProfile, AudioCodec, VideoCodec};
use muxide::codec::{av1, common, h264, h265, opus, vp9};

fn any_video_codec() -> VideoCodec {
    match kani::any::<u8>() & 3 {
        0 => VideoCodec::H264,
        1 => VideoCodec::H265,
        2 => VideoCodec::Av1,
        _ => VideoCodec::Vp9,
    }
}

// ---------------------------------------------------------------------------
// pure slice parsers: symbolic contents AND symbolic length 0..=N
// ---------------------------------------------------------------------------
macro_rules! slice_h {
    ($name:ident, $n:expr, $unw:expr, |$d:ident| $body:block) => {
        #[kani::proof]
        #[kani::unwind($unw)]
        #[kani::stub(muxide::invariant_ppt::__assert_invariant_impl, crate::stubs::assert_invariant_stub)]
        pub fn $name() {
            let buf: [u8; $n] = kani::any();
            let len: usize = kani::any();
            kani::assume(len <= $n);
            let $d: &[u8] = &buf[..len];
            $body;
            crate::vcover!(len == $n, "full length reached");
            crate::vcover!(len == 0, "empty input reached");
        }
    };
}

//@ prop=C12 tier=quick cost=61 fns="codec::h264::is_h264_keyframe,AnnexBNalIter::next,find_start_code" bound="all byte strings of length 0..=6" unwind=9 stubs="assert_invariant(panic-only)"
slice_h!(c12_h264_is_keyframe, 6, 9, |d| {
    let _ = h264::is_h264_keyframe(d);
});

//@ prop=C12 tier=quick cost=10 fns="codec::h265::hevc_nal_type,is_hevc_keyframe_nal_type" bound="all byte strings of length 0..=2, all u8" unwind=4
slice_h!(c12_h265_nal_type, 2, 4, |d| {
    let t = h265::hevc_nal_type(d);
    assert!(t <= 63);
    let _ = h265::is_hevc_keyframe_nal_type(kani::any());
});

//@ prop=C12 tier=quick cost=5 fns="codec::av1::read_leb128,obu_type,obu_has_extension,obu_has_size" bound="all byte strings of length 0..=10" unwind=12
slice_h!(c12_av1_leb128, 10, 12, |d| {
    if let Some((_v, n)) = av1::read_leb128(d) {
        assert!(n >= 1 && n <= 8 && n <= d.len());
    }
    let b: u8 = kani::any();
    assert!(av1::obu_type(b) <= 15);
    let _ = av1::obu_has_extension(b);
    let _ = av1::obu_has_size(b);
});

//@ prop=C12 tier=quick cost=5 fns="codec::av1::parse_obu_header,read_leb128" bound="all byte strings of length 0..=10" unwind=12
slice_h!(c12_av1_obu_header, 10, 12, |d| {
    if let Some(info) = av1::parse_obu_header(d) {
        assert!(info.header_size >= 1 && info.header_size <= 10);
        assert!(info.total_size == info.header_size + info.payload_size);
    }
});

//@ prop=C12 tier=quick cost=37 fns="codec::av1::ObuIter::next,parse_obu_header" bound="all byte strings of length 0..=6, up to 7 next() calls" unwind=10
slice_h!(c12_av1_obu_iter, 6, 10, |d| {
    let mut it = av1::ObuIter::new(d);
    let mut total = 0usize;
    let mut k = 0;
    while k < 7 {
        match it.next() {
            Some((info, obu)) => {
                assert!(obu.len() == info.total_size);
                assert!(obu.len() >= 1);
                total += obu.len();
                assert!(total <= d.len());
            }
            None => {}
        }
        k += 1;
    }
});

//@ prop=C12 tier=quick cost=60 fns="codec::av1::is_av1_keyframe,ObuIter::next,BitReader" bound="all byte strings of length 0..=6" unwind=9
slice_h!(c12_av1_is_keyframe, 6, 9, |d| {
    let _ = av1::is_av1_keyframe(d);
});

//@ prop=C12 tier=quick cost=5 fns="codec::vp9::is_vp9_keyframe,is_valid_vp9_frame" bound="all byte strings of length 0..=6" unwind=3 stubs="assert_invariant(panic-only)"
slice_h!(c12_vp9_is_keyframe, 6, 3, |d| {
    let r = vp9::is_vp9_keyframe(d);
    core::mem::forget(r);
    let _ = vp9::is_valid_vp9_frame(d);
});

//@ prop=C12 tier=quick cost=6 fns="codec::vp9::extract_vp9_config,parse_vp9_var_uint,parse_vp9_color_config" bound="all byte strings of length 0..=12" unwind=8 stubs="assert_invariant(panic-only)"
slice_h!(c12_vp9_extract, 12, 8, |d| {
    let r = vp9::extract_vp9_config(d);
    core::mem::forget(r);
});

//@ prop=C12 tier=quick cost=5 fns="codec::opus::opus_frame_duration_from_toc,opus_frame_count,opus_packet_samples,is_valid_opus_packet,OpusFrameDuration::samples,OpusFrameDuration::seconds" bound="all byte strings of length 0..=4, all TOC bytes" unwind=3
slice_h!(c12_opus_all, 4, 3, |d| {
    let toc: u8 = kani::any();
    if let Some(fd) = opus::opus_frame_duration_from_toc(toc) {
        let s = fd.samples();
        assert!(s >= 120 && s <= 2880);
        let _ = fd.seconds();
    }
    let _ = opus::opus_frame_count(d);
    if let Some(n) = opus::opus_packet_samples(d) {
        assert!(n > 0);
    }
    let _ = opus::is_valid_opus_packet(d);
});

//@ prop=C12 tier=quick cost=5 fns="codec::opus::OpusConfig::{default,mono,stereo,with_pre_skip,with_channels}" bound="all u8 channel counts, all u16 pre-skip" unwind=2
#[kani::proof]
#[kani::unwind(2)]
pub fn c12_opus_config() {
    let c = opus::OpusConfig::default().with_channels(kani::any()).with_pre_skip(kani::any());
    let m = opus::OpusConfig::mono();
    let s = opus::OpusConfig::stereo();
    assert!(m.output_channel_count == 1 && s.output_channel_count == 2);
    crate::vcover!(c.channel_mapping_family == 1, "mapping family 1");
    core::mem::forget((c, m, s));
}

// ---------------------------------------------------------------------------
// config extraction (allocating): concrete length per instance, symbolic contents
// ---------------------------------------------------------------------------
macro_rules! fixed_h {
    ($name:ident, $n:expr, $unw:expr, |$d:ident| $body:block) => {
        #[kani::proof]
        #[kani::unwind($unw)]
        #[kani::stub(muxide::invariant_ppt::__assert_invariant_impl, crate::stubs::assert_invariant_stub)]
        pub fn $name() {
            let buf: [u8; $n] = kani::any();
            let $d: &[u8] = &buf[..];
            $body;
            crate::vcover!(true, "harness end reached");
        }
    };
}

//@ prop=C12 tier=quick cost=5 fns="codec::h265::is_hevc_keyframe,hevc_nal_type,is_hevc_keyframe_nal_type,AnnexBNalIter::next" bound="all byte strings of length 0" unwind=4 stubs="assert_invariant(panic-only)"
fixed_h!(c12_h265_is_keyframe_len0, 0, 4, |d| {
    let _ = h265::is_hevc_keyframe(d);
});
//@ prop=C12 tier=quick cost=5 fns="codec::h265::is_hevc_keyframe,hevc_nal_type,is_hevc_keyframe_nal_type,AnnexBNalIter::next" bound="all byte strings of length 1" unwind=4 stubs="assert_invariant(panic-only)"
fixed_h!(c12_h265_is_keyframe_len1, 1, 4, |d| {
    let _ = h265::is_hevc_keyframe(d);
});
//@ prop=C12 tier=quick cost=16 fns="codec::h265::is_hevc_keyframe,hevc_nal_type,is_hevc_keyframe_nal_type,AnnexBNalIter::next" bound="all byte strings of length 3" unwind=6 stubs="assert_invariant(panic-only)"
fixed_h!(c12_h265_is_keyframe_len3, 3, 6, |d| {
    let _ = h265::is_hevc_keyframe(d);
});
//@ prop=C12 tier=quick cost=30 fns="codec::h265::is_hevc_keyframe,hevc_nal_type,is_hevc_keyframe_nal_type,AnnexBNalIter::next" bound="all byte strings of length 4" unwind=7 stubs="assert_invariant(panic-only)"
fixed_h!(c12_h265_is_keyframe_len4, 4, 7, |d| {
    let _ = h265::is_hevc_keyframe(d);
});
//@ prop=C12 tier=quick cost=50 fns="codec::h265::is_hevc_keyframe,hevc_nal_type,is_hevc_keyframe_nal_type,AnnexBNalIter::next" bound="all byte strings of length 6" unwind=9 stubs="assert_invariant(panic-only)"
fixed_h!(c12_h265_is_keyframe_len6, 6, 9, |d| {
    let _ = h265::is_hevc_keyframe(d);
});
//@ prop=C12 tier=thorough cost=21 fns="codec::h265::is_hevc_keyframe,hevc_nal_type,is_hevc_keyframe_nal_type,AnnexBNalIter::next" bound="all byte strings of length 5" unwind=8 stubs="assert_invariant(panic-only)"
fixed_h!(c12_h265_is_keyframe_len5, 5, 8, |d| {
    let _ = h265::is_hevc_keyframe(d);
});
//@ prop=C12 tier=thorough cost=200 fns="codec::h265::is_hevc_keyframe,hevc_nal_type,is_hevc_keyframe_nal_type,AnnexBNalIter::next" bound="all byte strings of length 7" unwind=10 stubs="assert_invariant(panic-only)"
fixed_h!(c12_h265_is_keyframe_len7, 7, 10, |d| {
    let _ = h265::is_hevc_keyframe(d);
});
//@ prop=C12 tier=quick cost=120 fns="codec::h264::extract_avc_config,AvcConfig::{profile_idc,profile_compatibility,level_idc}" bound="all byte strings of length 8" unwind=11 stubs="assert_invariant(panic-only)"
fixed_h!(c12_h264_extract_len8, 8, 11, |d| {
    let r = h264::extract_avc_config(d);
    if let Some(c) = &r {
        let _ = (c.profile_idc(), c.profile_compatibility(), c.level_idc());
    }
    core::mem::forget(r);
});
//@ prop=C12 tier=thorough cost=60 fns="codec::h264::extract_avc_config" bound="all byte strings of length 5" unwind=8 stubs="assert_invariant(panic-only)"
fixed_h!(c12_h264_extract_len5, 5, 8, |d| {
    let r = h264::extract_avc_config(d);
    core::mem::forget(r);
});
//@ prop=C12 tier=quick cost=5 fns="codec::h264::extract_avc_config,default_avc_config,AvcConfig::new" bound="empty input; default config" unwind=11
#[kani::proof]
#[kani::unwind(11)]
#[kani::stub(muxide::invariant_ppt::__assert_invariant_impl, crate::stubs::assert_invariant_stub)]
pub fn c12_h264_extract_empty() {
    let e: [u8; 0] = [];
    let r = h264::extract_avc_config(&e[..]);
    assert!(r.is_none());
    core::mem::forget(r);
    crate::vcover!(true, "reached");
}

//@ prop=C12 tier=quick cost=132 fns="codec::h265::extract_hevc_config,HevcConfig::{general_profile_space,general_tier_flag,general_profile_idc,general_level_idc}" bound="all byte strings of length 9" unwind=12 stubs="assert_invariant(panic-only)" timeout=900
fixed_h!(c12_h265_extract_len9, 9, 12, |d| {
    let r = h265::extract_hevc_config(d);
    if let Some(c) = &r {
        let _ = (c.general_profile_space(), c.general_tier_flag(), c.general_profile_idc(), c.general_level_idc());
    }
    core::mem::forget(r);
});

// AV1 config extraction is decided by the differential harnesses c07_av1_payload* (registered for C12 too).

// ===========================================================================
// fragmented muxer: every public method from hook-built states, symbolic scalars
// ===========================================================================
use muxide::fragmented::verif as fh;
use muxide::fragmented::{FragmentConfig, FragmentedMuxer};

fn fdata(n: usize) -> Vec<u8> {
    let mut v = Vec::with_capacity(n);
    let mut i = 0;
    while i < n {
        v.push(7);
        i += 1;
    }
    v
}
fn fcfg(timescale: u32, frag_ms: u32) -> FragmentConfig {
    FragmentConfig { width: kani::any(), height: kani::any(), timescale, fragment_duration_ms: frag_ms, sps: Vec::new(), pps: Vec::new(), vps: None, av1_sequence_header: None, vp9_config: None }
}

//@ prop=C12 tier=quick cost=6 fns="fragmented::FragmentedMuxer::new,ready_to_flush,current_fragment_duration_ms" bound="2 queued samples, any u64 dts (non-decreasing), any u32 timescale / target (timescale 0 and spans >= 2^64/1000 excluded while listed as known findings)" unwind=6 stubs="assert_invariant(panic-only)"
#[kani::proof]
#[kani::unwind(6)]
#[kani::stub(muxide::invariant_ppt::__assert_invariant_impl, crate::stubs::assert_invariant_stub)]
pub fn c12_frag_ready_queries() {
    let dts: [u64; 2] = kani::any();
    kani::assume(dts[0] <= dts[1]);
    let ts: u32 = kani::any();
    if crate::known::KF_C12_FRAG_TIMESCALE_ZERO {
        kani::assume(ts != 0);
    }
    if crate::known::KF_C12_FRAG_SPAN_MS_OVERFLOW {
        kani::assume(dts[1] - dts[0] <= u64::MAX / 1000);
    }
    let samples = [fh::mk_sample(dts[0], dts[0], fdata(1), true), fh::mk_sample(dts[1], dts[1], fdata(1), false)];
    let m = fh::muxer_with_state::<2>(fcfg(ts, kani::any()), samples, 1, kani::any(), kani::any(), None, Some(dts[1]));
    let _ = m.ready_to_flush();
    let _ = m.current_fragment_duration_ms();
    let e = FragmentedMuxer::new(fcfg(ts, kani::any()));
    assert!(!e.ready_to_flush() && e.current_fragment_duration_ms() == 0);
    crate::vcover!(ts == 1, "timescale 1");
    core::mem::forget((m, e));
}
//@ prop=C12 tier=quick cost=5 fns="fragmented::FragmentedMuxer::ready_to_flush" bound="2 queued samples, timescale 0" unwind=6 expect=fail kf=KF-C12-frag-timescale-zero
#[kani::proof]
#[kani::unwind(6)]
pub fn c12_w_frag_timescale_zero() {
    let samples = [fh::mk_sample(0, 0, fdata(1), true), fh::mk_sample(1, 1, fdata(1), false)];
    let m = fh::muxer_with_state::<2>(fcfg(0, 1), samples, 1, 1, 0, None, Some(1));
    let _ = m.ready_to_flush();
    core::mem::forget(m);
}
//@ prop=C12 tier=quick cost=5 fns="fragmented::FragmentedMuxer::current_fragment_duration_ms" bound="2 queued samples, span > u64::MAX/1000" unwind=6 expect=fail kf=KF-C12-frag-span-ms-overflow
#[kani::proof]
#[kani::unwind(6)]
pub fn c12_w_frag_span_ms_overflow() {
    let d: u64 = kani::any();
    kani::assume(d > u64::MAX / 1000);
    let samples = [fh::mk_sample(0, 0, fdata(1), true), fh::mk_sample(d, d, fdata(1), false)];
    let m = fh::muxer_with_state::<2>(fcfg(90000, 1), samples, 1, 1, 0, None, Some(d));
    let _ = m.current_fragment_duration_ms();
    core::mem::forget(m);
}

//@ prop=C12 tier=quick cost=61 fns="fragmented::FragmentedMuxer::flush_segment,build_media_segment,build_trun" bound="1 queued sample (1 byte), any u64 pts/dts/seq/base (sequence number u32::MAX, dts > u64::MAX-3000 and ticks >= 2^63 excluded while listed as known findings)" unwind=6 timeout=1200 stubs="assert_invariant(panic-only)"
#[kani::proof]
#[kani::unwind(6)]
#[kani::stub(muxide::invariant_ppt::__assert_invariant_impl, crate::stubs::assert_invariant_stub)]
pub fn c12_frag_flush_k1() {
    let (p, d): (u64, u64) = (kani::any(), kani::any());
    let seq: u32 = kani::any();
    if crate::known::KF_C12_FRAG_FLUSH_ARITHMETIC_OVERFLOW {
        kani::assume(seq < u32::MAX && d <= u64::MAX - 3000);
    }
    if crate::known::KF_C12_TICKS_ABOVE_I64 {
        kani::assume(p < (1 << 63) && d < (1 << 63));
    }
    let mut m = fh::muxer_with_state::<1>(fcfg(90000, 2000), [fh::mk_sample(p, d, fdata(1), kani::any())], 1, seq, kani::any(), None, Some(d));
    let r = m.flush_segment();
    assert!(r.is_some());
    crate::vcover!(true, "reached");
    core::mem::forget((m, r));
}
//@ prop=C12 tier=quick cost=51 fns="fragmented::FragmentedMuxer::flush_segment" bound="1 queued sample; sequence number u32::MAX or dts near u64::MAX" unwind=6 timeout=1200 expect=fail kf=KF-C12-frag-flush-arithmetic-overflow
#[kani::proof]
#[kani::unwind(6)]
pub fn c12_w_frag_flush_overflow() {
    let d: u64 = kani::any();
    let seq: u32 = kani::any();
    kani::assume(d < (1 << 62));
    kani::assume(seq == u32::MAX);
    let mut m = fh::muxer_with_state::<1>(fcfg(90000, 2000), [fh::mk_sample(d, d, fdata(1), true)], 1, seq, 0, None, Some(d));
    let r = m.flush_segment();
    core::mem::forget((m, r));
}
//@ prop=C12 tier=quick cost=7 fns="fragmented::build_trun,muxer::mp4::SampleTables::from_samples" bound="1 sample, pts >= 2^63" unwind=6 expect=fail kf=KF-C12-ticks-above-i64
#[kani::proof]
#[kani::unwind(6)]
pub fn c12_w_ticks_above_i64() {
    let p: u64 = kani::any();
    kani::assume(p >= (1 << 63));
    let t = mp4h2::tables_from_samples([mp4h2::mk_sample(p, 1, fdata(1), true, None)], Vec::new(), 1, None);
    core::mem::forget(t);
}
use muxide::verif_hooks::mp4::verif as mp4h2;

//@ prop=C12 tier=quick cost=120 fns="fragmented::FragmentedMuxer::write_video,init_segment" bound="empty queue: any write (2-byte data); init_segment on a VP9/H.264 config with any dims" unwind=40 timeout=900 stubs="assert_invariant(panic-only)"
#[kani::proof]
#[kani::unwind(40)]
#[kani::stub(muxide::invariant_ppt::__assert_invariant_impl, crate::stubs::assert_invariant_stub)]
pub fn c12_frag_write_and_init() {
    let mut m = FragmentedMuxer::new(fcfg(kani::any(), kani::any()));
    let r = m.write_video(kani::any(), kani::any(), &[1u8, 2], kani::any());
    assert!(r.is_ok());
    let i = m.init_segment();
    assert!(i.len() > 8);
    crate::vcover!(true, "reached");
    core::mem::forget((m, r, i));
}

// ===========================================================================
// progressive kernels behind finalize
// ===========================================================================
//@ prop=C12 tier=quick cost=8 fns="muxer::mp4::build_stsz_box" bound="2 sample sizes, all u32 (zero sizes excluded while INV-004 is listed)" unwind=6 stubs="assert_invariant(panic-only),fmt::format"
#[kani::proof]
#[kani::unwind(6)]
#[kani::stub(muxide::invariant_ppt::__assert_invariant_impl, crate::stubs::assert_invariant_stub)]
#[kani::stub(alloc::fmt::format, crate::stubs::format_stub)]
pub fn c12_stsz_sizes() {
    let s: [u32; 2] = kani::any();
    if crate::known::KF_C12_STSZ_ZERO_SIZE_SAMPLE {
        kani::assume(s[0] > 0 && s[1] > 0);
    }
    let b = mp4h2::build_stsz_box(&s);
    assert!(b.len() == 28);
    crate::vcover!(true, "reached");
}
//@ prop=C12 tier=quick cost=5 fns="muxer::mp4::build_stsz_box" bound="one zero-size sample" unwind=6 stubs="assert_invariant(panic-only),fmt::format" expect=fail kf=KF-C12-stsz-zero-size-sample
#[kani::proof]
#[kani::unwind(6)]
#[kani::stub(muxide::invariant_ppt::__assert_invariant_impl, crate::stubs::assert_invariant_stub)]
#[kani::stub(alloc::fmt::format, crate::stubs::format_stub)]
pub fn c12_w_stsz_zero_size() {
    let b = mp4h2::build_stsz_box(&[5u32, 0]);
    core::mem::forget(b);
}
//@ prop=C12 tier=quick cost=14 fns="Mp4Writer::write_audio_sample,adts_to_raw" bound="AAC writer; ADTS frame whose declared length equals its header length is ACCEPTED with an empty payload (leads to INV-004 at finalize)" unwind=14 stubs="assert_invariant(panic-only),fmt::format,String::push" expect=fail kf=KF-C12-stsz-zero-size-sample
#[kani::proof]
#[kani::unwind(14)]
#[kani::stub(muxide::invariant_ppt::__assert_invariant_impl, crate::stubs::assert_invariant_stub)]
#[kani::stub(alloc::fmt::format, crate::stubs::format_stub)]
#[kani::stub(alloc::string::String::push_str, crate::stubs::string_push_str_stub)]
#[kani::stub(alloc::string::String::push, crate::stubs::string_push_stub)]
pub fn c12_w_adts_empty_payload_accepted() {
    use muxide::api::{AacProfile, AudioCodec, VideoCodec};
    use muxide::verif_hooks::mp4::{Mp4AudioTrack, Mp4Writer};
    struct Null;
    impl std::io::Write for Null {
        fn write(&mut self, b: &[u8]) -> std::io::Result<usize> { Ok(b.len()) }
        fn flush(&mut self) -> std::io::Result<()> { Ok(()) }
    }
    let mut w = Mp4Writer::new(Null, VideoCodec::Vp9);
    w.enable_audio(Mp4AudioTrack { sample_rate: 44100, channels: 2, codec: AudioCodec::Aac(AacProfile::Lc) });
    // sync fff, MPEG-4, layer 0, no CRC, LC, 44.1 kHz, stereo, frame length 7 = header only
    let r = w.write_audio_sample(0, &[0xff, 0xf1, 0x50, 0x80, 0x00, 0xe0, 0x00]);
    let empty_accepted = r.is_ok() && mp4h2::audio_sample_digest(&w, 0).map(|s| s.len) == Some(0);
    assert!(!empty_accepted, "an ADTS frame without payload must not be queued as a zero-size sample");
    core::mem::forget((w, r));
}

macro_rules! entry_dims_h {
    ($name:ident, $f:path, $cfg:expr) => {
        #[kani::proof]
        #[kani::unwind(40)]
        #[kani::stub(muxide::invariant_ppt::__assert_invariant_impl, crate::stubs::assert_invariant_stub)]
        pub fn $name() {
            let (w, h): (u32, u32) = (kani::any(), kani::any());
            if crate::known::KF_C12_SAMPLE_ENTRY_DIMS_PANIC {
                kani::assume(w <= 65535 && h <= 65535);
            }
            let cfg = $cfg;
            let b = $f(&muxide::verif_hooks::mp4::Mp4VideoTrack { width: w, height: h }, &cfg);
            assert!(b.len() > 86);
            crate::vcover!(w == 65535, "largest width");
            core::mem::forget(cfg);
        }
    };
}
//@ prop=C12 tier=quick cost=12 fns="muxer::mp4::build_vp09_box" bound="all u32 dims (dims > 65535 excluded while INV-002 is listed)" unwind=40 stubs="assert_invariant(panic-only)"
entry_dims_h!(c12_vp09_entry_dims, mp4h2::build_vp09_box, muxide::codec::vp9::Vp9Config { width: 1, height: 1, profile: 0, bit_depth: 8, color_space: 0, transfer_function: 0, matrix_coefficients: 0, level: 0, full_range_flag: 0 });
//@ prop=C12 tier=quick cost=14 fns="muxer::mp4::build_avc1_box" bound="all u32 dims (dims > 65535 excluded while INV-002 is listed)" unwind=40 stubs="assert_invariant(panic-only)"
entry_dims_h!(c12_avc1_entry_dims, mp4h2::build_avc1_box, muxide::codec::h264::AvcConfig::new(vec![0x67, 1, 2, 3], vec![0x68, 1]));
//@ prop=C12 tier=quick cost=5 fns="muxer::mp4::build_vp09_box" bound="width 65536" unwind=40 stubs="assert_invariant(panic-only)" expect=fail kf=KF-C12-sample-entry-dims-panic
#[kani::proof]
#[kani::unwind(40)]
#[kani::stub(muxide::invariant_ppt::__assert_invariant_impl, crate::stubs::assert_invariant_stub)]
pub fn c12_w_entry_dims_panic() {
    let cfg = muxide::codec::vp9::Vp9Config { width: 1, height: 1, profile: 0, bit_depth: 8, color_space: 0, transfer_function: 0, matrix_coefficients: 0, level: 0, full_range_flag: 0 };
    let b = mp4h2::build_vp09_box(&muxide::verif_hooks::mp4::Mp4VideoTrack { width: 65536, height: 16 }, &cfg);
    core::mem::forget(b);
}

// calendar loop: bounded iterations only for bounded days
//@ prop=C12 tier=thorough cost=200 fns="muxer::mp4::days_to_ymd" bound="all days < 14610 (40 years): no overflow, terminates within 42 iterations" unwind=43 timeout=900
#[kani::proof]
#[kani::unwind(43)]
pub fn c12_days_to_ymd_bounded() {
    let d: u64 = kani::any();
    kani::assume(d < 14610);
    let (y, m, dd) = mp4h2::days_to_ymd(d);
    assert!(y >= 1970 && y < 2011 && m >= 1 && m <= 12 && dd >= 1 && dd <= 31);
    crate::vcover!(y == 2009, "last year reached");
}
//@ prop=C12 tier=quick cost=21 fns="muxer::mp4::days_to_ymd" bound="all u64 days: the year loop needs days/365 iterations (unwinding assertion at 20 fails)" unwind=20 expect=fail expect_unwind=1 kf=KF-C12-calendar-loop-unbounded
#[kani::proof]
#[kani::unwind(20)]
pub fn c12_w_days_to_ymd_unbounded() {
    let d: u64 = kani::any();
    let _ = mp4h2::days_to_ymd(d);
}

//@ prop=C12 tier=quick cost=25 fns="muxer::mp4::encode_language_code,fragmented::encode_language_code" bound="all strings of 3 bytes that are valid UTF-8 (ASCII and one 2-byte + 1-byte forms), plus the empty string" unwind=8 timeout=900
#[kani::proof]
#[kani::unwind(8)]
pub fn c12_language_any_string() {
    let b: [u8; 3] = kani::any();
    // ASCII x3, or a 2-byte sequence followed by ASCII, or ASCII followed by a 2-byte sequence
    let ascii = b[0] < 0x80 && b[1] < 0x80 && b[2] < 0x80;
    let two_one = b[0] >= 0xc2 && b[0] <= 0xdf && b[1] >= 0x80 && b[1] <= 0xbf && b[2] < 0x80;
    let one_two = b[0] < 0x80 && b[1] >= 0xc2 && b[1] <= 0xdf && b[2] >= 0x80 && b[2] <= 0xbf;
    kani::assume(ascii || two_one || one_two);
    let s = unsafe { core::str::from_utf8_unchecked(&b) };
    let a = mp4h2::encode_language_code(s);
    let f = fh::encode_language_code(s);
    assert!(a == f, "both copies agree");
    assert!(a[0] & 0x80 == 0, "pad bit stays clear");
    let e = mp4h2::encode_language_code("");
    assert!(e == [0x55, 0xc4], "empty code falls back to 'und'");
    crate::vcover!(two_one, "multi-byte character");
}

// ---------------------------------------------------------------------------
// validation::* (public dry-run validators): panic freedom + is_valid <=> no errors
// ---------------------------------------------------------------------------
use muxide::validation as val;

macro_rules! vslice_h {
    ($name:ident, $n:expr, $unw:expr, |$d:ident| $body:block) => {
        #[kani::proof]
        #[kani::unwind($unw)]
        #[kani::stub(muxide::invariant_ppt::__assert_invariant_impl, crate::stubs::assert_invariant_stub)]
        #[kani::stub(alloc::fmt::format, crate::stubs::format_stub)]
        pub fn $name() {
            let buf: [u8; $n] = kani::any();
            let len: usize = kani::any();
            kani::assume(len <= $n);
            let $d: &[u8] = &buf[..len];
            $body;
            crate::vcover!(len == $n, "full length reached");
            crate::vcover!(len == 0, "empty input reached");
        }
    };
}

//@ prop=C12 tier=quick cost=60 fns="validation::validate_video_frame(H264),ValidationResult::{valid,with_error,with_message},is_h264_keyframe" bound="all byte strings of length 0..=6, any keyframe flag" unwind=9 stubs="assert_invariant(panic-only),fmt::format"
vslice_h!(c12_validate_video_frame_h264, 6, 9, |d| {
    let r = val::validate_video_frame(VideoCodec::H264, d, kani::any());
    assert!(r.is_valid == r.errors.is_empty());
    core::mem::forget(r);
});
//@ prop=C12 tier=quick cost=60 fns="validation::validate_video_frame(H265),is_hevc_keyframe" bound="all byte strings of length 0..=6, any keyframe flag" unwind=9 stubs="assert_invariant(panic-only),fmt::format"
vslice_h!(c12_validate_video_frame_h265, 6, 9, |d| {
    let r = val::validate_video_frame(VideoCodec::H265, d, kani::any());
    assert!(r.is_valid == r.errors.is_empty());
    core::mem::forget(r);
});
//@ prop=C12 tier=quick cost=60 fns="validation::validate_video_frame(Av1),is_av1_keyframe" bound="all byte strings of length 0..=6, any keyframe flag" unwind=9 stubs="assert_invariant(panic-only),fmt::format"
vslice_h!(c12_validate_video_frame_av1, 6, 9, |d| {
    let r = val::validate_video_frame(VideoCodec::Av1, d, kani::any());
    assert!(r.is_valid == r.errors.is_empty());
    core::mem::forget(r);
});
//@ prop=C12 tier=quick cost=15 fns="validation::validate_video_frame(Vp9),is_vp9_keyframe" bound="all byte strings of length 0..=6, any keyframe flag" unwind=4 stubs="assert_invariant(panic-only),fmt::format"
vslice_h!(c12_validate_video_frame_vp9, 6, 4, |d| {
    let r = val::validate_video_frame(VideoCodec::Vp9, d, kani::any());
    assert!(r.is_valid == r.errors.is_empty());
    core::mem::forget(r);
});
//@ prop=C12 tier=quick cost=10 fns="validation::validate_audio_frame,is_valid_opus_packet" bound="all byte strings of length 0..=8, codec AAC-LC / Opus / None" unwind=4 stubs="assert_invariant(panic-only),fmt::format"
vslice_h!(c12_validate_audio_frame, 8, 4, |d| {
    let which: u8 = kani::any();
    let codec = match which % 3 { 0 => AudioCodec::Aac(AacProfile::Lc), 1 => AudioCodec::Opus, _ => AudioCodec::None };
    let r = val::validate_audio_frame(codec, d);
    assert!(r.is_valid == r.errors.is_empty());
    if d.is_empty() || matches!(codec, AudioCodec::None) { assert!(!r.is_valid); }
    core::mem::forget(r);
});

//@ prop=C12 tier=quick cost=20 fns="validation::validate_video_config,validate_audio_config" bound="all u32 dimensions, all f64 framerates (incl. NaN/inf), all u32 sample rates, all u8 channel counts, every codec" unwind=4 stubs="fmt::format"
#[kani::proof]
#[kani::unwind(4)]
#[kani::stub(alloc::fmt::format, crate::stubs::format_stub)]
pub fn c12_validate_configs() {
    let which: u8 = kani::any();
    let vc = match which % 4 { 0 => VideoCodec::H264, 1 => VideoCodec::H265, 2 => VideoCodec::Av1, _ => VideoCodec::Vp9 };
    let w: u32 = kani::any();
    let h: u32 = kani::any();
    let fps: f64 = kani::any();
    let r = val::validate_video_config(vc, w, h, fps);
    assert!(r.is_valid == r.errors.is_empty());
    if w == 0 || h == 0 || w > 4096 || h > 2160 || fps <= 0.0 || fps > 120.0 { assert!(!r.is_valid); }
    core::mem::forget(r);
    let ac = match (which / 4) % 3 { 0 => AudioCodec::Aac(AacProfile::Lc), 1 => AudioCodec::Opus, _ => AudioCodec::None };
    let sr: u32 = kani::any();
    let ch: u8 = kani::any();
    let r2 = val::validate_audio_config(ac, sr, ch);
    assert!(r2.is_valid == r2.errors.is_empty());
    crate::vcover!(r2.is_valid, "valid audio config reached");
    crate::vcover!(!r2.is_valid, "invalid audio config reached");
    core::mem::forget(r2);
}
