//! C18 — title, creation date and language are stored faithfully.
use crate::bx::*;
use crate::stubs::*;
use muxide::api::Metadata;
use muxide::fragmented::verif as fh;
use muxide::verif_hooks::mp4::verif as mp4h;

macro_rules! h {
    ($name:ident, $unw:expr, $body:block) => {
        #[kani::proof]
        #[kani::unwind($unw)]
        #[kani::stub(muxide::invariant_ppt::__assert_invariant_impl, crate::stubs::assert_invariant_stub)]
        pub fn $name() {
            $body;
        }
    };
}

// ---------------------------------------------------------------------------
// (a) calendar: days_to_ymd(0) = 1970-01-01 and days_to_ymd(d+1) is the Gregorian
//     successor of days_to_ymd(d), for every d below the bound -> by induction the
//     function is the proleptic Gregorian calendar on the whole range.
// ---------------------------------------------------------------------------
fn ref_leap(y: u32) -> bool {
    (y % 4 == 0 && y % 100 != 0) || y % 400 == 0
}
fn ref_dim(y: u32, m: u32) -> u32 {
    match m {
        1 | 3 | 5 | 7 | 8 | 10 | 12 => 31,
        4 | 6 | 9 | 11 => 30,
        _ => {
            if ref_leap(y) {
                29
            } else {
                28
            }
        }
    }
}
fn ref_succ(y: u32, m: u32, d: u32) -> (u32, u32, u32) {
    if d < ref_dim(y, m) {
        (y, m, d + 1)
    } else if m < 12 {
        (y, m + 1, 1)
    } else {
        (y + 1, 1, 1)
    }
}

fn succ_body(max_days: u64) {
    let d: u64 = kani::any();
    kani::assume(d < max_days);
    let (y, m, dd) = mp4h::days_to_ymd(d);
    assert!(m >= 1 && m <= 12 && dd >= 1 && dd <= ref_dim(y, m), "valid calendar date");
    let n = mp4h::days_to_ymd(d + 1);
    assert!(n == ref_succ(y, m, dd), "next day is the calendar successor");
    crate::vcover!(m == 2 && dd == 29, "29 February reached");
    crate::vcover!(m == 12 && dd == 31, "year roll-over reached");
    crate::vcover!(y == 2000 && m == 2 && dd == 28, "28 Feb 2000 (400-year rule)");
}

//@ prop=C18 tier=quick cost=5 fns="muxer::mp4::days_to_ymd,is_leap_year" bound="day 0" unwind=14
h!(c18_epoch, 14, {
    assert!(mp4h::days_to_ymd(0) == (1970, 1, 1));
    assert!(mp4h::days_to_ymd(59) == (1970, 3, 1));
    crate::vcover!(true, "reached");
});

//@ prop=C18 tier=quick cost=150 fns="muxer::mp4::days_to_ymd,is_leap_year" bound="all days d < 7305 (1970-01-01 .. 1989-12-31), successor relation" unwind=23 covers_optional="2000"
h!(c18_succ_to_1990, 23, {
    succ_body(7305);
});

//@ prop=C18 tier=thorough cost=1500 fns="muxer::mp4::days_to_ymd,is_leap_year" bound="all days d < 24837 (1970-01-01 .. 2037-12-31), successor relation" unwind=71 timeout=5000 mem=30
h!(c18_succ_to_2038, 71, {
    succ_body(24837);
});

//@ prop=C18 tier=thorough cost=4742 fns="muxer::mp4::days_to_ymd,is_leap_year" bound="all days d < 54787 (1970 .. 2119, includes the non-leap century year 2100): result is a valid date in the right year window (single call)" unwind=153 timeout=7000 mem=30
h!(c18_valid_to_2120, 153, {
    let d: u64 = kani::any();
    kani::assume(d < 54787);
    let (y, m, dd) = mp4h::days_to_ymd(d);
    assert!(m >= 1 && m <= 12 && dd >= 1 && dd <= ref_dim(y, m), "valid calendar date");
    assert!((y as u64 - 1970) * 365 <= d && d < (y as u64 - 1969) * 366, "year consistent with the day count");
    crate::vcover!(y == 2100 && m == 2 && dd == 28, "28 Feb 2100");
    crate::vcover!(y == 2100 && m == 3 && dd == 1, "1 Mar 2100");
});

// (b) time of day and (c) text rendering go through core::fmt (format!), whose
// symbolic execution does not finish (symex > 20 min for a single call, measured):
// not claimed, see DESIGN.md.

// ---------------------------------------------------------------------------
// (d) language packing
// ---------------------------------------------------------------------------
fn lang_body(f: fn(&str) -> [u8; 2]) {
    let l: [u8; 3] = kani::any();
    kani::assume(l[0] >= b'a' && l[0] <= b'z' && l[1] >= b'a' && l[1] <= b'z' && l[2] >= b'a' && l[2] <= b'z');
    let s = core::str::from_utf8(&l).unwrap();
    let p = f(s);
    let v = ((p[0] as u16) << 8) | p[1] as u16;
    assert!(v & 0x8000 == 0, "pad bit");
    assert!(((v >> 10) & 0x1f) as u8 + 0x60 == l[0], "first letter recoverable");
    assert!(((v >> 5) & 0x1f) as u8 + 0x60 == l[1], "second letter recoverable");
    assert!((v & 0x1f) as u8 + 0x60 == l[2], "third letter recoverable");
    crate::vcover!(l[0] == b'z' && l[2] == b'a', "zxa-like code");
}
//@ prop=C18 tier=quick cost=23 fns="muxer::mp4::encode_language_code" bound="all 26^3 lower-case codes" unwind=8
h!(c18_lang_progressive, 8, {
    lang_body(mp4h::encode_language_code);
});
//@ prop=C18 tier=quick cost=25 fns="fragmented::encode_language_code" bound="all 26^3 lower-case codes" unwind=8
h!(c18_lang_fragmented, 8, {
    lang_body(fh::encode_language_code);
});
//@ prop=C18 tier=quick cost=60 fns="muxer::mp4::build_mdhd_box_with_timescale_and_duration,encode_language_code" bound="all 26^3 lower-case codes and None" unwind=8
h!(c18_mdhd_language, 8, {
    let l: [u8; 3] = kani::any();
    kani::assume(l[0] >= b'a' && l[0] <= b'z' && l[1] >= b'a' && l[1] <= b'z' && l[2] >= b'a' && l[2] <= b'z');
    let s = core::str::from_utf8(&l).unwrap();
    let b = snap::<32>(&mp4h::build_mdhd_box_with_timescale_and_duration(90000, 0, Some(s)));
    let v = be16(&b, 28);
    assert!(((v >> 10) & 0x1f) as u8 + 0x60 == l[0] && ((v >> 5) & 0x1f) as u8 + 0x60 == l[1] && (v & 0x1f) as u8 + 0x60 == l[2]);
    let n = snap::<32>(&mp4h::build_mdhd_box_with_timescale_and_duration(90000, 0, None));
    assert!(be16(&n, 28) == 0x55c4, "'und' when no language is given");
    crate::vcover!(true, "reached");
});

// ---------------------------------------------------------------------------
// (e) udta: presence combinations x title bytes
// ---------------------------------------------------------------------------
/// udta/meta/hdlr+ilst tree with `items` string items; returns offset of the first item.
fn check_udta_shell(v: &[u8], n: usize) -> usize {
    assert!(box_is(v, 0, n, b"udta"), "udta spans the whole output");
    assert!(box_is(v, 8, n - 8, b"meta") && be32(v, 16) == 0, "meta full box fills udta");
    assert!(box_is(v, 20, 33, b"hdlr") && is_type(v, 36, b"mdir"), "metadata handler");
    assert!(box_is(v, 53, n - 53, b"ilst"), "ilst fills the rest");
    61
}
fn check_item<const N: usize>(v: &[u8], o: usize, tag: &[u8; 4], val: &[u8; N]) -> usize {
    assert!(box_is(v, o, 24 + N, tag), "item box");
    assert!(box_is(v, o + 8, 16 + N, b"data"), "data box");
    assert!(be32(v, o + 16) == 1 && be32(v, o + 20) == 0, "UTF-8 type, locale 0");
    let mut i = 0;
    while i < N {
        assert!(v[o + 24 + i] == val[i], "value bytes verbatim");
        i += 1;
    }
    o + 24 + N
}

/// Reference UTF-8 well-formedness (Unicode Table 3-7) for the short strings used here.
fn cont(b: u8) -> bool {
    b >= 0x80 && b <= 0xbf
}
fn utf8_seq_len(t: &[u8], i: usize) -> usize {
    // length of the well-formed sequence starting at i, or 0
    let n = t.len() - i;
    let b0 = t[i];
    if b0 < 0x80 {
        return 1;
    }
    if b0 >= 0xc2 && b0 <= 0xdf {
        return if n >= 2 && cont(t[i + 1]) { 2 } else { 0 };
    }
    if b0 >= 0xe0 && b0 <= 0xef {
        if n < 3 || !cont(t[i + 2]) {
            return 0;
        }
        let b1 = t[i + 1];
        let ok = match b0 {
            0xe0 => b1 >= 0xa0 && b1 <= 0xbf,
            0xed => b1 >= 0x80 && b1 <= 0x9f,
            _ => cont(b1),
        };
        return if ok { 3 } else { 0 };
    }
    if b0 >= 0xf0 && b0 <= 0xf4 {
        if n < 4 || !cont(t[i + 2]) || !cont(t[i + 3]) {
            return 0;
        }
        let b1 = t[i + 1];
        let ok = match b0 {
            0xf0 => b1 >= 0x90 && b1 <= 0xbf,
            0xf4 => b1 >= 0x80 && b1 <= 0x8f,
            _ => cont(b1),
        };
        return if ok { 4 } else { 0 };
    }
    0
}
fn valid_utf8(t: &[u8]) -> bool {
    let mut i = 0;
    let mut k = 0;
    while k < 5 {
        if i >= t.len() {
            return true;
        }
        let l = utf8_seq_len(t, i);
        if l == 0 {
            return false;
        }
        i += l;
        k += 1;
    }
    i >= t.len()
}

macro_rules! udta_title_h {
    ($name:ident, $n:expr) => {
        h!($name, 12, {
            let t: [u8; $n] = kani::any();
            kani::assume(valid_utf8(&t));
            // SAFETY: well-formed by the reference predicate above (String is only a byte container here)
            let title = unsafe { String::from_utf8_unchecked(t.to_vec()) };
            let md = Metadata { title: Some(title), creation_time: None, language: kani::any::<bool>().then(|| String::from("eng")) };
            let out = mp4h::build_udta_box(&md);
            let v = snap::<{ 61 + 24 + $n }>(&out);
            let o = check_udta_shell(&v, 61 + 24 + $n);
            let e = check_item::<$n>(&v, o, b"\xa9nam", &t);
            assert!(e == v.len(), "exactly one item");
            crate::vcover!($n > 0 && t[0] >= 0x80, "multi-byte UTF-8 title");
            crate::vcover!($n == 0 || t[0] < 0x80, "ASCII or empty title");
            core::mem::forget(md);
        });
    };
}
//@ prop=C18 tier=quick cost=60 fns="muxer::mp4::build_udta_box,build_ilst_string_item,build_meta_hdlr_box,build_box" bound="all well-formed UTF-8 titles of 3 bytes, no creation time, language present/absent" unwind=12
udta_title_h!(c18_udta_title3, 3);
//@ prop=C18 tier=thorough cost=60 fns="muxer::mp4::build_udta_box,build_ilst_string_item" bound="all well-formed UTF-8 titles of 4 bytes" unwind=12
udta_title_h!(c18_udta_title4, 4);
//@ prop=C18 tier=thorough cost=30 fns="muxer::mp4::build_udta_box,build_ilst_string_item" bound="all well-formed UTF-8 titles of 1 byte" unwind=12 covers_optional="multi-byte"
udta_title_h!(c18_udta_title1, 1);
//@ prop=C18 tier=quick cost=44 fns="muxer::mp4::build_udta_box,build_ilst_string_item" bound="the empty title" unwind=12 covers_optional="multi-byte"
udta_title_h!(c18_udta_title0, 0);

//@ prop=C18 tier=quick cost=5 fns="muxer::mp4::build_udta_box" bound="no title, no creation time; language present/absent" unwind=12
h!(c18_udta_absent, 12, {
    let md = Metadata { title: None, creation_time: None, language: kani::any::<bool>().then(|| String::from("eng")) };
    let out = mp4h::build_udta_box(&md);
    assert!(out.is_empty(), "no user-data box without title and creation time");
    crate::vcover!(md.language.is_some(), "language only");
    core::mem::forget(md);
});

fn udta_day_body(with_title: bool) {
    let secs: u64 = kani::any();
    kani::assume(secs < 86400 * 800);
    let t: [u8; 2] = kani::any();
    kani::assume(t[0] < 0x80 && t[1] < 0x80);
    let title = if with_title { Some(unsafe { String::from_utf8_unchecked(t.to_vec()) }) } else { None };
    let md = Metadata { title, creation_time: Some(secs), language: None };
    let out = mp4h::build_udta_box(&md);
    let empty: [u8; 0] = [];
    if with_title {
        let v = snap::<{ 61 + 26 + 24 }>(&out);
        let o = check_udta_shell(&v, 61 + 26 + 24);
        let o = check_item::<2>(&v, o, b"\xa9nam", &t);
        let e = check_item::<0>(&v, o, b"\xa9day", &empty);
        assert!(e == v.len());
    } else {
        let v = snap::<{ 61 + 24 }>(&out);
        let o = check_udta_shell(&v, 61 + 24);
        let e = check_item::<0>(&v, o, b"\xa9day", &empty);
        assert!(e == v.len());
    }
    crate::vcover!(true, "reached");
    core::mem::forget(md);
}
//@ prop=C18 tier=quick cost=108 fns="muxer::mp4::build_udta_box,build_ilst_string_item,format_unix_timestamp" bound="2 symbolic ASCII title bytes + any creation time < 800 days; date TEXT stubbed out (fmt::format -> empty): item structure/order only" unwind=12 stubs="fmt::format"
#[kani::proof]
#[kani::unwind(12)]
#[kani::stub(muxide::invariant_ppt::__assert_invariant_impl, crate::stubs::assert_invariant_stub)]
#[kani::stub(alloc::fmt::format, crate::stubs::format_stub)]
pub fn c18_udta_title_and_day() {
    udta_day_body(true);
}
//@ prop=C18 tier=quick cost=60 fns="muxer::mp4::build_udta_box,build_ilst_string_item,format_unix_timestamp" bound="no title + any creation time < 800 days; date TEXT stubbed out (fmt::format -> empty): item structure only" unwind=12 stubs="fmt::format"
#[kani::proof]
#[kani::unwind(12)]
#[kani::stub(muxide::invariant_ppt::__assert_invariant_impl, crate::stubs::assert_invariant_stub)]
#[kani::stub(alloc::fmt::format, crate::stubs::format_stub)]
pub fn c18_udta_day_only() {
    udta_day_body(false);
}
