// GENERATED scratch file: /verif/check writes Kani concrete-playback tests here
// while replaying a counterexample and restores this placeholder afterwards.
