//! Kani proof harnesses for muxide. Every harness is decided by CBMC over the
//! compiled real crate (path dependency on /repo with feature `verif`).
//!
//! Harness metadata lives in `//@` comment lines directly above each harness (or
//! macro invocation) and is read by /verif/check.
#![feature(allocator_api)]
#![allow(static_mut_refs, clippy::all, dead_code, unused_imports, unused_macros)]

pub mod known;
pub mod stubs;
pub mod ref_annexb;

#[cfg(all(kani, feature = "c14"))]
pub mod p_c14;

#[cfg(kani)]
pub mod playback_gen;
