//! Kani proof harnesses for muxide. Every harness is decided by CBMC over the
//! compiled real crate (path dependency on /repo with feature `verif`).
//!
//! Harness metadata lives in `//@` comment lines directly above each harness (or
//! macro invocation) and is read by /verif/check.
#![cfg_attr(kani, feature(allocator_api))]
#![allow(static_mut_refs, clippy::all, dead_code, unused_imports, unused_macros)]

/// Vacuity witness. Compiled out with feature `nocover` (used for the trace-producing second
/// run of a FAILED harness: CBMC builds one trace per satisfied cover, which is where the
/// memory of a playback run goes).
#[macro_export]
macro_rules! vcover {
    ($($t:tt)*) => {
        #[cfg(not(feature = "nocover"))]
        kani::cover!($($t)*);
    };
}

pub mod known;
pub mod stubs;
pub mod ref_annexb;
pub mod ref_av1;
pub mod bx;
pub mod fin;
pub mod native_mp4;
pub mod apistep;

#[cfg(all(kani, any(feature = "c01", feature = "c02")))]
pub mod p_c01;
#[cfg(all(kani, any(feature = "c02", feature = "c09")))]
pub mod p_c02;
#[cfg(all(kani, any(feature = "c03", feature = "c08")))]
pub mod p_c03;
#[cfg(all(kani, any(feature = "c04", feature = "c05", feature = "c12")))]
pub mod p_c04;
#[cfg(all(kani, feature = "c06"))]
pub mod p_c06;
#[cfg(all(kani, any(feature = "c07", feature = "c12")))]
pub mod p_c07;
#[cfg(all(kani, feature = "c08"))]
pub mod p_c08;
#[cfg(all(kani, feature = "c09"))]
pub mod p_c09;
#[cfg(all(kani, any(feature = "c10", feature = "c11")))]
pub mod p_c10;
#[cfg(all(kani, feature = "c12"))]
pub mod p_c12;
#[cfg(all(kani, feature = "c13"))]
pub mod p_c13;
#[cfg(all(kani, feature = "c14"))]
pub mod p_c14;
#[cfg(all(kani, feature = "c15"))]
pub mod p_c15;
#[cfg(all(kani, feature = "c16"))]
pub mod p_c16;
#[cfg(all(kani, feature = "c18"))]
pub mod p_c18;
#[cfg(all(kani, any(feature = "c19", feature = "c07")))]
pub mod p_c19;

#[cfg(kani)]
pub mod playback_gen;
#[cfg(all(kani, feature = "x"))]
pub mod p_x;
