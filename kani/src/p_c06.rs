//! C06 — finalisation happens exactly once and accounts for every byte and frame.
use crate::fin::*;
use crate::stubs::*;
use muxide::api::verif as apih;
use muxide::api::{MuxerError, VideoCodec};
use muxide::verif_hooks::mp4::verif as mp4h;

macro_rules! h {
    ($name:ident, $unw:expr, $body:block) => {
        #[kani::proof]
        #[kani::unwind($unw)]
        #[kani::stub(muxide::invariant_ppt::__assert_invariant_impl, crate::stubs::assert_invariant_stub)]
        #[kani::stub(muxide::muxer::mp4::build_moov_box, muxide::verif_hooks::mp4::verif::moov_recording_stub)]
        pub fn $name() {
            $body;
        }
    };
}

fn once_body<const NV: usize, const NA: usize>(fast_start: bool, audio: bool) {
    let vpts: [u64; NV] = kani::any();
    let apts: [u64; NA] = kani::any();
    let mut i = 0;
    while i < NV {
        kani::assume(vpts[i] < (1 << 63));
        i += 1;
    }
    let c = carrier(8);
    let mut w = build_writer::<NV, NA>(RecSink::new(), vpts, core::array::from_fn(|i| i == 0), apts, audio);
    assert!(mp4h::sink(&w).calls == 0 && mp4h::bytes_written(&w) == 0, "nothing reaches the sink before finalize");
    let r = w.finalize(&c.track, None, fast_start);
    assert!(r.is_ok());
    let total = mp4h::sink(&w).total;
    let calls = mp4h::sink(&w).calls;
    assert!(mp4h::bytes_written(&w) == total, "byte count = bytes delivered to the sink");
    let moov_len: u64 = if replay_mode() {
        crate::native_mp4::parse(&mp4h::sink(&w).log).expect("well-formed file").top.iter().find(|t| &t.0 == b"moov").map(|t| t.2 as u64).unwrap()
    } else {
        8
    };
    assert!(total == FTYP_LEN + moov_len + if NV + NA > 0 || audio || fast_start { 8 + total_payload::<NV, NA>() } else { 0 }, "file = ftyp + moov + mdat(header + payloads)");
    assert!(mp4h::video_sample_count(&w) == NV as u64 && mp4h::audio_sample_count(&w) == NA as u64, "frame counts");
    // a second finalize, and any write after it, is refused and writes nothing
    let r2 = w.finalize(&c.track, None, kani::any());
    assert!(r2.is_err(), "second finalize is refused");
    let r3 = w.write_video_sample_with_dts(kani::any(), kani::any(), &[1u8, 2], kani::any());
    assert!(matches!(r3, Err(muxide::verif_hooks::mp4::Mp4WriterError::AlreadyFinalized)), "video write after finalize is refused");
    let r4 = w.write_audio_sample(kani::any(), &crate::apistep::OPUS_PKT);
    assert!(matches!(r4, Err(muxide::verif_hooks::mp4::Mp4WriterError::AlreadyFinalized)), "audio write after finalize is refused");
    assert!(mp4h::sink(&w).total == total && mp4h::sink(&w).calls == calls, "nothing further is written");
    assert!(mp4h::video_sample_count(&w) == NV as u64 && mp4h::audio_sample_count(&w) == NA as u64 && mp4h::bytes_written(&w) == total, "statistics unchanged by refused calls");
    crate::vcover!(true, "reached");
    core::mem::forget((w, r, r2, r3, r4));
}

//@ prop=C06 tier=quick cost=93 fns="Mp4Writer::finalize,finalize_standard,write_counted,write_video_sample_with_dts,write_audio_sample" bound="standard, 2 video samples, all pts" unwind=6 stubs="build_moov_box(recording stand-in)" timeout=1200
h!(c06_once_std_v2, 6, { once_body::<2, 0>(false, false) });
//@ prop=C06 tier=quick cost=153 fns="Mp4Writer::finalize,finalize_fast_start,write_counted" bound="fast start, 1 video + 1 audio sample, all pts" unwind=6 stubs="build_moov_box(recording stand-in)" timeout=1200
h!(c06_once_fast_v1a1, 6, { once_body::<1, 1>(true, true) });
//@ prop=C06 tier=thorough cost=400 fns="Mp4Writer::finalize,finalize_standard,write_counted" bound="standard, 1 video + 1 audio sample" unwind=6 stubs="build_moov_box(recording stand-in)" timeout=2500
h!(c06_once_std_v1a1, 6, { once_body::<1, 1>(false, true) });
//@ prop=C06 tier=thorough cost=400 fns="Mp4Writer::finalize,finalize_fast_start,write_counted" bound="fast start, 2 video samples" unwind=6 stubs="build_moov_box(recording stand-in)" timeout=2500
h!(c06_once_fast_v2, 6, { once_body::<2, 0>(true, false) });
//@ prop=C06 tier=thorough cost=900 fns="Mp4Writer::finalize,finalize_standard,write_counted" bound="standard, 2 video + 1 audio samples" unwind=6 stubs="build_moov_box(recording stand-in)" timeout=3000 mem=30
h!(c06_once_std_v2a1, 6, { once_body::<2, 1>(false, true) });
//@ prop=C06 tier=thorough cost=100 fns="Mp4Writer::finalize,finalize_standard" bound="no samples" unwind=6 stubs="build_moov_box(recording stand-in)"
h!(c06_once_std_v0, 6, { once_body::<0, 0>(false, false) });

// ---- max_end_pts = largest presentation end time over all samples -------------------------
fn end_body<const NV: usize, const NA: usize>(assume_known: bool) {
    let vpts: [u64; NV] = kani::any();
    let apts: [u64; NA] = kani::any();
    let vlast: Option<u32> = kani::any();
    let alast: Option<u32> = kani::any();
    // reachable writer states: durations of non-final samples are Some(d), final sample None and
    // the track's last delta remembers the previous interval
    let mut i = 0;
    while i < NV {
        kani::assume(vpts[i] < (1 << 62));
        i += 1;
    }
    let mut j = 0;
    while j < NA {
        kani::assume(apts[j] < (1 << 62));
        if j > 0 {
            kani::assume(apts[j - 1] <= apts[j]);
        }
        j += 1;
    }
    let w = build_writer_with_deltas::<NV, NA>(vpts, apts, vlast, alast);
    // reference: max over all samples of pts + duration (final sample: last delta, else its stored duration)
    let mut want: Option<u64> = None;
    let mut i = 0;
    while i < NV {
        let d = if i + 1 < NV { 1000 } else { vlast.unwrap_or(0) as u64 };
        let e = vpts[i] + d;
        want = Some(match want { Some(x) if x >= e => x, _ => e });
        i += 1;
    }
    let mut j = 0;
    while j < NA {
        let d = if j + 1 < NA { (apts[j + 1] - apts[j]).min(u32::MAX as u64) } else { alast.unwrap_or(0) as u64 };
        let e = apts[j] + d;
        want = Some(match want { Some(x) if x >= e => x, _ => e });
        j += 1;
    }
    let got = mp4h::max_end_pts(&w);
    if assume_known {
        // known finding: only the LAST sample of each track is considered
        let mut later_end = false;
        let mut i = 0;
        while i + 1 < NV {
            later_end |= vpts[i] + 1000 > vpts[NV - 1] + vlast.unwrap_or(0) as u64;
            i += 1;
        }
        kani::assume(!later_end);
    }
    match (got, want) {
        (None, None) => {}
        (Some(g), Some(x)) => assert!(g == x, "reported end = largest presentation end time over all samples"),
        _ => panic!("presence of an end time differs"),
    }
    crate::vcover!(NV >= 2 && vpts[0] > vpts[1], "reordered video");
    core::mem::forget(w);
}

fn build_writer_with_deltas<const NV: usize, const NA: usize>(vpts: [u64; NV], apts: [u64; NA], vlast: Option<u32>, alast: Option<u32>) -> muxide::verif_hooks::mp4::Mp4Writer<RecSink> {
    use muxide::verif_hooks::mp4::verif as m;
    let video: [_; NV] = core::array::from_fn(|i| m::mk_sample(vpts[i], 1000 * i as u64, payload(vtag(i), VSIZE[i]), i == 0, if i + 1 < NV { Some(1000) } else { None }));
    let audio: [_; NA] = core::array::from_fn(|j| {
        let d = if j + 1 < NA { Some((apts[j + 1] - apts[j]).min(u32::MAX as u64) as u32) } else { None };
        m::mk_sample(apts[j], apts[j], payload(atag(j), ASIZE[j]), false, d)
    });
    m::writer_with_state::<RecSink, NV, NA>(RecSink::new(), VideoCodec::Vp9, video, Some(audio_track()), audio,
        if NV > 0 { Some(1000 * (NV as u64 - 1)) } else { None }, vlast, if NA > 0 { Some(apts[NA - 1]) } else { None }, alast, None, false, 0)
}

//@ prop=C06 tier=quick cost=11 fns="Mp4Writer::max_end_pts" bound="2 video + 1 audio samples, all pts < 2^62, any last deltas (reordered video whose earlier sample ends later is excluded while KF-C06 is listed)" unwind=6
#[kani::proof]
#[kani::unwind(6)]
pub fn c06_max_end_v2a1() {
    end_body::<2, 1>(crate::known::KF_C06_MAX_END_PTS_USES_LAST_SAMPLE);
}
//@ prop=C06 tier=quick cost=12 fns="Mp4Writer::max_end_pts" bound="1 video + 2 audio samples" unwind=6 covers_optional="reordered"
#[kani::proof]
#[kani::unwind(6)]
pub fn c06_max_end_v1a2() {
    end_body::<1, 2>(crate::known::KF_C06_MAX_END_PTS_USES_LAST_SAMPLE);
}
//@ prop=C06 tier=quick cost=7 fns="Mp4Writer::max_end_pts" bound="2 video samples, reordered" unwind=6 expect=fail kf=KF-C06-max-end-pts-uses-last-sample
#[kani::proof]
#[kani::unwind(6)]
pub fn c06_w_max_end_reordered() {
    end_body::<2, 0>(false);
}

// ---- API level: finished flag, stats, every finish entry point ------------------------------
fn api_muxer(fast: bool) -> muxide::api::Muxer<RecSink> {
    use muxide::api::{AudioCodec, MuxerBuilder};
    match MuxerBuilder::new(RecSink::new()).video(VideoCodec::Vp9, 64, 48, 30.0).audio(AudioCodec::Opus, 48000, 2).with_fast_start(fast).build() {
        Ok(m) => m,
        Err(_) => panic!("build"),
    }
}

//@ prop=C06 tier=quick cost=253 fns="api::Muxer::finish_in_place_with_stats,finish_in_place,write_video,write_video_with_dts,write_audio,encode_video" bound="API muxer (VP9+Opus) with 1 video + 1 audio frame at concrete times; every later call with symbolic arguments" unwind=12 stubs="build_moov_box(recording stand-in)" timeout=1500
h!(c06_api_finish_once, 12, {
    no_carrier();
    let mut m = api_muxer(kani::any());
    let a = m.write_video(0.0, &crate::apistep::VP9_KEY, true);
    let b = m.write_audio(0.5, &crate::apistep::OPUS_PKT);
    assert!(a.is_ok() && b.is_ok());
    let before_calls = mp4h::sink(apih::writer(&m)).calls;
    assert!(before_calls == 0, "nothing is written before finish");
    let st = match m.finish_in_place_with_stats() {
        Ok(s) => s,
        Err(_) => panic!("finish must succeed"),
    };
    let total = mp4h::sink(apih::writer(&m)).total;
    assert!(st.video_frames == 1 && st.audio_frames == 1, "frame counts = accepted frames");
    assert!(st.bytes_written == total, "byte count = bytes delivered");
    assert!(apih::muxer_digest(&m).finished);
    // every further call is refused and writes nothing
    let r1 = m.finish_in_place_with_stats();
    assert!(matches!(r1, Err(MuxerError::AlreadyFinished)), "second finish is refused");
    let r2 = m.finish_in_place();
    assert!(matches!(r2, Err(MuxerError::AlreadyFinished)));
    let r3 = m.write_video_with_dts(kani::any(), kani::any(), &crate::apistep::VP9_DELTA, kani::any());
    assert!(matches!(r3, Err(MuxerError::AlreadyFinished)), "write_video_with_dts after finish");
    let r4 = m.write_audio(kani::any(), &crate::apistep::OPUS_PKT);
    assert!(matches!(r4, Err(MuxerError::AlreadyFinished)), "write_audio after finish");
    let r5 = m.write_video(kani::any(), &crate::apistep::VP9_DELTA, kani::any());
    assert!(r5.is_err(), "write_video after finish is refused");
    assert!(mp4h::sink(apih::writer(&m)).total == total, "nothing further is written");
    crate::vcover!(true, "reached");
    core::mem::forget((m, a, b, r1, r2, r3, r4, r5));
});
