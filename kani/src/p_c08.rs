//! C08 — fast start changes only the layout; both layouts address samples correctly.
//! Both layouts are decided against the SAME reference computed from the symbolic inputs:
//! identical tables (sizes, durations, composition offsets, sync list, chunking) and chunk
//! offsets that are absolute for the layout, for two different moov lengths.
use crate::fin::*;
use crate::stubs::*;
use muxide::verif_hooks::mp4::verif as mp4h;

fn layout_body<const NV: usize, const NA: usize>(fast_start: bool, audio_track: bool, stub_len: usize, with_meta: bool) {
    const META_EXTRA: usize = 5; // the stand-in moov grows by this much when metadata is passed
    let moov_len = stub_len + if with_meta { META_EXTRA } else { 0 };
    let vpts: [u64; NV] = kani::any();
    let apts: [u64; NA] = kani::any();
    let mut reordered = false;
    let mut i = 0;
    while i < NV {
        kani::assume(vpts[i] < (1 << 31)); // composition offsets must fit the signed 32-bit field (C16 decides beyond)
        if i > 0 {
            reordered |= vpts[i - 1] > vpts[i];
        }
        i += 1;
    }
    if crate::known::KF_C01_REORDERED_VIDEO_WITH_AUDIO && audio_track {
        kani::assume(!reordered);
    }
    let mut c = carrier(stub_len);
    c.meta_extra = META_EXTRA;
    let md = muxide::api::Metadata { title: Some(String::from("t")), creation_time: None, language: None };
    let mref = if with_meta { Some(&md) } else { None };
    let vkey: [bool; NV] = core::array::from_fn(|i| i % 2 == 0);
    let mut w = build_writer::<NV, NA>(RecSink::new(), vpts, vkey, apts, audio_track);
    let r = w.finalize(&c.track, mref, fast_start);
    assert!(r.is_ok());
    if replay_mode() {
        native_finalize_check::<NV, NA>(&mp4h::sink(&w).log, &vpts, &vkey, &apts, audio_track, fast_start);
        core::mem::forget((w, r));
        return;
    }
    let sink = mp4h::sink(&w);
    let mc = final_call(&c);
    // ---- top-level order -------------------------------------------------------
    let moov_pos = sink.pos_of(MOOV_TAG).unwrap();
    let mdat_pos = sink.pos_of(b'm').unwrap() - 4;
    if fast_start {
        assert!(moov_pos == FTYP_LEN && mdat_pos == FTYP_LEN + moov_len as u64, "fast start: ftyp, moov, mdat");
        // both passes see tables of the same shape (so the measured length is the final length)
        let p0 = c.call0.get();
        assert!(p0.metadata_present == with_meta, "the measuring pass is built with the same metadata as the final moov");
        assert!(c.calls.get() == 2 && p0.video.n == mc.video.n && p0.video.n_chunks == mc.video.n_chunks && p0.video.n_keyframes == mc.video.n_keyframes
            && p0.video.has_bframes == mc.video.has_bframes && p0.audio_present == mc.audio_present && p0.audio.n == mc.audio.n && p0.audio.n_chunks == mc.audio.n_chunks,
            "placeholder and final moov are built from tables of identical shape");
    } else {
        assert!(mdat_pos == FTYP_LEN && moov_pos == FTYP_LEN + 8 + total_payload::<NV, NA>(), "standard: ftyp, mdat, moov");
    }
    let data_start = mdat_pos + 8;
    // ---- tables common to both layouts (reference from the inputs) -----------------
    assert!(mc.metadata_present == with_meta, "the moov builder receives the configured metadata");
    let v = mc.video;
    assert!(v.n == NV && v.n_keyframes == (NV + 1) / 2);
    let mut any_off = false;
    let mut i = 0;
    while i < NV {
        assert!(v.sizes[i] as usize == VSIZE[i], "sizes identical in both layouts");
        assert!(v.durations[i] == if NV > 1 { 1000 } else { 1 }, "durations identical in both layouts");
        assert!(v.cts_offsets[i] as i64 == vpts[i] as i64 - 1000 * i as i64, "composition offsets identical in both layouts");
        any_off |= vpts[i] != 1000 * i as u64;
        if i % 2 == 0 {
            assert!(v.keyframes[i / 2] == i as u32 + 1, "sync list identical in both layouts");
        }
        i += 1;
    }
    assert!(v.has_bframes == any_off);
    // ---- chunk offsets: absolute for this layout ------------------------------------
    assert!(mc.audio_present == audio_track);
    if audio_track {
        assert!(v.n_chunks == NV && mc.audio.n_chunks == NA && mc.audio.n == NA);
        let mut i = 0;
        while i < NV {
            assert!(v.chunk_offsets[i] as u64 == data_start + bytes_before(&vpts, &apts, rank(&vpts, &apts, 0, i)), "video chunk offset absolute for this layout");
            i += 1;
        }
        let mut j = 0;
        while j < NA {
            assert!(mc.audio.chunk_offsets[j] as u64 == data_start + bytes_before(&vpts, &apts, rank(&vpts, &apts, 1, j)), "audio chunk offset absolute for this layout");
            assert!(mc.audio.sizes[j] as usize == ASIZE[j] && mc.audio.durations[j] == 1 && mc.audio.cts_offsets[j] == 0);
            j += 1;
        }
    } else {
        assert!(v.n_chunks == if NV > 0 { 1 } else { 0 } && v.samples_per_chunk == NV as u32);
        if NV > 0 {
            assert!(v.chunk_offsets[0] as u64 == data_start, "single chunk starts right after the mdat header");
        }
    }
    crate::vcover!(any_off, "composition offsets present");
    crate::vcover!(!any_off, "no composition offsets");
    core::mem::forget((w, r, md));
}

macro_rules! lay_h {
    ($name:ident, $nv:expr, $na:expr, $fast:expr, $audio:expr, $pad:expr, $unw:expr) => {
        lay_h!($name, $nv, $na, $fast, $audio, $pad, $unw, false);
    };
    ($name:ident, $nv:expr, $na:expr, $fast:expr, $audio:expr, $pad:expr, $unw:expr, $meta:expr) => {
        #[kani::proof]
        #[kani::unwind($unw)]
        #[kani::stub(muxide::invariant_ppt::__assert_invariant_impl, crate::stubs::assert_invariant_stub)]
        #[kani::stub(muxide::muxer::mp4::build_moov_box, muxide::verif_hooks::mp4::verif::moov_recording_stub)]
        pub fn $name() {
            layout_body::<$nv, $na>($fast, $audio, $pad, $meta);
        }
    };
}
//@ prop=C08 tier=thorough cost=300 fns="Mp4Writer::finalize,finalize_standard,SampleTables::from_samples" bound="standard, video-only, 2 samples, all pts < 2^31" unwind=6 stubs="build_moov_box(recording stand-in)" timeout=1200
lay_h!(c08_std_v2, 2, 0, false, false, 8, 6);
//@ prop=C08 tier=quick cost=300 fns="Mp4Writer::finalize,finalize_fast_start,SampleTables::from_samples" bound="fast start, video-only, 2 samples, moov length 8" unwind=6 stubs="build_moov_box(recording stand-in)" timeout=1200
lay_h!(c08_fast_v2_pad0, 2, 0, true, false, 8, 6);
//@ prop=C08 tier=thorough cost=300 fns="Mp4Writer::finalize,finalize_fast_start,SampleTables::from_samples" bound="fast start, video-only, 2 samples, moov length 13 (longer metadata moves the media data)" unwind=6 stubs="build_moov_box(recording stand-in)" timeout=1200
lay_h!(c08_fast_v2_pad5, 2, 0, true, false, 13, 6);
//@ prop=C08 tier=quick cost=400 fns="Mp4Writer::finalize,finalize_standard,compute_interleave_schedule" bound="standard, 1 video + 1 audio sample" unwind=6 stubs="build_moov_box(recording stand-in)" timeout=1200 
lay_h!(c08_std_v1a1, 1, 1, false, true, 8, 6);
//@ prop=C08 tier=thorough cost=500 fns="Mp4Writer::finalize,finalize_fast_start,compute_interleave_schedule" bound="fast start, 1 video + 1 audio sample, moov length 13" unwind=6 stubs="build_moov_box(recording stand-in)" timeout=1200
lay_h!(c08_fast_v1a1_pad5, 1, 1, true, true, 13, 6);
//@ prop=C08 tier=thorough cost=900 fns="Mp4Writer::finalize,finalize_standard,compute_interleave_schedule" bound="standard, 2 video + 1 audio samples" unwind=6 stubs="build_moov_box(recording stand-in)" timeout=3000 mem=30
lay_h!(c08_std_v2a1, 2, 1, false, true, 8, 6);
//@ prop=C08 tier=thorough cost=1200 fns="Mp4Writer::finalize,finalize_fast_start,compute_interleave_schedule" bound="fast start, 2 video + 1 audio samples, moov length 8" unwind=6 stubs="build_moov_box(recording stand-in)" timeout=3000 mem=30
lay_h!(c08_fast_v2a1_pad0, 2, 1, true, true, 8, 6);
//@ prop=C08 tier=thorough cost=1200 fns="Mp4Writer::finalize,finalize_fast_start,compute_interleave_schedule" bound="fast start, 2 video + 1 audio samples, moov length 13" unwind=6 stubs="build_moov_box(recording stand-in)" timeout=3000 mem=30
lay_h!(c08_fast_v2a1_pad5, 2, 1, true, true, 13, 6);

//@ prop=C08 tier=quick cost=286 fns="Mp4Writer::finalize,finalize_fast_start,compute_interleave_schedule" bound="fast start WITH metadata (the stand-in moov is 5 bytes longer when metadata is passed), 1 video + 1 audio sample" unwind=6 stubs="build_moov_box(recording stand-in)" timeout=1400
lay_h!(c08_fast_v1a1_meta, 1, 1, true, true, 8, 6, true);
//@ prop=C08 tier=quick cost=400 fns="Mp4Writer::finalize,finalize_fast_start" bound="fast start WITH metadata, video-only 2 samples" unwind=6 stubs="build_moov_box(recording stand-in)" timeout=1400
lay_h!(c08_fast_v2_meta, 2, 0, true, false, 8, 6, true);
//@ prop=C08 tier=thorough cost=400 fns="Mp4Writer::finalize,finalize_standard,compute_interleave_schedule" bound="standard WITH metadata, 1 video + 1 audio sample" unwind=6 stubs="build_moov_box(recording stand-in)" timeout=2400
lay_h!(c08_std_v1a1_meta, 1, 1, false, true, 8, 6, true);

// flag plumbing: Muxer::finish_in_place_with_stats passes its fast_start flag to the writer
//@ prop=C08 tier=quick cost=400 fns="api::Muxer::finish_in_place_with_stats,MuxerBuilder::with_fast_start,Mp4Writer::finalize" bound="API-level muxer with 1 VP9 frame, fast_start flag symbolic" unwind=12 stubs="build_moov_box(recording stand-in)" timeout=1500
#[kani::proof]
#[kani::unwind(12)]
#[kani::stub(muxide::invariant_ppt::__assert_invariant_impl, crate::stubs::assert_invariant_stub)]
#[kani::stub(muxide::muxer::mp4::build_moov_box, muxide::verif_hooks::mp4::verif::moov_recording_stub)]
pub fn c08_api_flag_plumbing() {
    use muxide::api::{MuxerBuilder, VideoCodec};
    no_carrier();
    let fast: bool = kani::any();
    let mut m = match MuxerBuilder::new(RecSink::new()).video(VideoCodec::Vp9, 64, 48, 30.0).with_fast_start(fast).build() {
        Ok(m) => m,
        Err(_) => panic!("build"),
    };
    let r0 = m.write_video(0.0, &crate::apistep::VP9_KEY, true);
    assert!(r0.is_ok());
    let r = m.finish_in_place_with_stats();
    assert!(r.is_ok());
    let sink = mp4h::sink(muxide::api::verif::writer(&m));
    if replay_mode() {
        let p = crate::native_mp4::parse(&sink.log).expect("well-formed file");
        let names: Vec<[u8; 4]> = p.top.iter().map(|t| t.0).collect();
        let moov_i = names.iter().position(|n| n == b"moov").unwrap();
        let mdat_i = names.iter().position(|n| n == b"mdat").unwrap();
        assert!((moov_i < mdat_i) == fast, "moov precedes mdat iff fast start was requested");
        core::mem::forget((m, r0, r));
        return;
    }
    let moov_pos = sink.pos_of(MOOV_TAG).unwrap();
    let mdat_pos = sink.pos_of(b'm').unwrap() - 4;
    assert!((moov_pos < mdat_pos) == fast, "moov precedes mdat iff fast start was requested");
    crate::vcover!(fast, "fast start");
    crate::vcover!(!fast, "standard");
    core::mem::forget((m, r0, r));
}
