//! C01 — every sample in the file resolves to exactly the bytes and key flag submitted.
//! Deciding harness: the real Mp4Writer::finalize (both layouts) on a hook-built
//! writer, with build_moov_box replaced by a recording stand-in and a recording sink:
//! every table entry handed to the moov builder must point at the place where that
//! sample's payload really went.
use crate::bx::*;
use crate::fin::*;
use crate::stubs::*;
use muxide::verif_hooks::mp4::verif as mp4h;

fn finalize_body<const NV: usize, const NA: usize>(fast_start: bool, audio_track: bool, moov_len: usize) {
    let vpts: [u64; NV] = kani::any();
    // key flags are concrete (pattern K N K): a symbolic flag would make the sync table a vector
    // of symbolic length, which CBMC cannot handle (DESIGN.md); symbolic flags are decided on the
    // from_samples kernel (c01_sync_table_*).
    let vkey: [bool; NV] = core::array::from_fn(|i| i % 2 == 0);
    let apts: [u64; NA] = kani::any();
    // ticks below 2^63 (beyond that `pts as i64 - dts as i64` overflows: a C12/C16 matter)
    let mut reordered = false;
    let mut i = 0;
    while i < NV {
        kani::assume(vpts[i] < (1 << 63));
        if i > 0 {
            reordered |= vpts[i - 1] > vpts[i];
        }
        i += 1;
    }
    if NV >= 3 {
        reordered |= vpts[0] > vpts[2];
    }
    // known finding: with an audio track, reordered video gets permuted chunk offsets
    if crate::known::KF_C01_REORDERED_VIDEO_WITH_AUDIO && audio_track {
        kani::assume(!reordered);
    }
    let c = carrier(moov_len);
    let mut w = build_writer::<NV, NA>(RecSink::new(), vpts, vkey, apts, audio_track);
    let r = w.finalize(&c.track, None, fast_start);
    assert!(r.is_ok(), "finalize succeeds with a fault-free sink");
    if replay_mode() {
        // native replay of a solver counterexample: judge the real file (real moov)
        native_finalize_check::<NV, NA>(&mp4h::sink(&w).log, &vpts, &vkey, &apts, audio_track, fast_start);
        core::mem::forget((w, r));
        return;
    }
    let sink = mp4h::sink(&w);
    assert!(c.calls.get() == if fast_start { 2 } else { 1 }, "moov built once (standard) or measured + built (fast start)");
    let mc = final_call(&c);
    let v = mc.video;
    // ---- layout of the file: where the bytes really went -------------------------------
    let payload_total = total_payload::<NV, NA>();
    let mdat_start = if fast_start { FTYP_LEN + moov_len as u64 } else { FTYP_LEN };
    let have_mdat = NV + NA > 0 || fast_start || audio_track;
    assert!(sink.firsts[0] == 0x00 && sink.lens[0] == FTYP_LEN as usize, "ftyp is written first");
    assert!(sink.count_tag(MOOV_TAG) == 1, "exactly one moov reaches the sink");
    let moov_pos = sink.pos_of(MOOV_TAG).unwrap();
    if fast_start {
        assert!(moov_pos == FTYP_LEN, "fast start: moov right after ftyp");
    } else {
        assert!(moov_pos + moov_len as u64 == sink.total, "standard: moov is the last thing written");
    }
    if have_mdat {
        assert!(sink.count_tag(b'm') == 1, "one mdat type tag");
        assert!(sink.pos_of(b'm') == Some(mdat_start + 4), "mdat header directly at the expected position");
    } else {
        assert!(sink.count_tag(b'm') == 0);
    }
    let data_start = mdat_start + 8;
    // ---- per-sample resolution: table entry -> the place the payload was written -----------
    assert!(v.n == NV, "one table row per video sample");
    let single_chunk = !audio_track;
    if single_chunk {
        assert!(v.n_chunks == if NV > 0 { 1 } else { 0 } && v.samples_per_chunk == NV as u32, "video-only: one chunk holding all samples");
    } else {
        assert!(v.n_chunks == NV && (NV == 0 || v.samples_per_chunk == 1), "interleaved: one chunk per sample");
    }
    let mut i = 0;
    let mut run = 0u64;
    while i < NV {
        assert!(v.sizes[i] as usize == VSIZE[i], "stsz entry = payload length");
        let off = if single_chunk { v.chunk_offsets[0] as u64 + run } else { v.chunk_offsets[i] as u64 };
        assert!(sink.count_tag(vtag(i)) == 1, "each video payload is written exactly once");
        assert!(Some(off) == sink.pos_of(vtag(i)), "video sample offset points at its own payload");
        assert!(off >= data_start && off + VSIZE[i] as u64 <= data_start + payload_total, "video sample range lies inside mdat");
        run += VSIZE[i] as u64;
        i += 1;
    }
    let mut kf = 0usize;
    let mut i = 0;
    while i < NV {
        if vkey[i] {
            assert!(kf < v.n_keyframes && v.keyframes[kf] == i as u32 + 1, "stss lists exactly the key samples, 1-based, in order");
            kf += 1;
        }
        i += 1;
    }
    assert!(kf == v.n_keyframes, "no extra sync entries");
    assert!(mc.audio_present == audio_track, "audio tables are handed over iff an audio track is configured");
    if audio_track {
        let a = mc.audio;
        assert!(a.n == NA && a.n_chunks == NA);
        let mut j = 0;
        while j < NA {
            assert!(a.sizes[j] as usize == ASIZE[j]);
            assert!(sink.count_tag(atag(j)) == 1, "each audio payload is written exactly once");
            assert!(Some(a.chunk_offsets[j] as u64) == sink.pos_of(atag(j)), "audio sample offset points at its own payload");
            j += 1;
        }
        assert!(a.n_keyframes == 0, "audio has no sync table");
    }
    let end = if fast_start { sink.total } else { moov_pos };
    assert!(end == data_start + payload_total || !have_mdat, "sample ranges cover the mdat payload exactly");
    crate::vcover!(reordered, "reordered video reached");
    crate::vcover!(!reordered && NV >= 2, "in-order video reached");
    core::mem::forget((w, r));
}

macro_rules! fin_h {
    ($name:ident, $nv:expr, $na:expr, $fast:expr, $audio:expr, $moov:expr, $unw:expr) => {
        #[kani::proof]
        #[kani::unwind($unw)]
        #[kani::stub(muxide::invariant_ppt::__assert_invariant_impl, crate::stubs::assert_invariant_stub)]
        #[kani::stub(muxide::muxer::mp4::build_moov_box, muxide::verif_hooks::mp4::verif::moov_recording_stub)]
        pub fn $name() {
            finalize_body::<$nv, $na>($fast, $audio, $moov);
        }
    };
}

//@ prop=C01 tier=thorough cost=182 fns="Mp4Writer::finalize,finalize_standard,SampleTables::from_samples" bound="video-only, 2 samples (2+3 bytes), all u64 pts, key flags K N K; moov builder replaced by an encoding stand-in" unwind=6 stubs="build_moov_box(recording stand-in)" covers_optional="x" mem=8
fin_h!(c01_std_v2, 2, 0, false, false, 8, 6);
//@ prop=C01 tier=quick cost=241 fns="Mp4Writer::finalize,finalize_fast_start,SampleTables::from_samples" bound="video-only fast start, 2 samples, all u64 pts, key flags K N K" unwind=6 stubs="build_moov_box(recording stand-in)" mem=8
fin_h!(c01_fast_v2, 2, 0, true, false, 8, 6);
//@ prop=C01 tier=quick cost=334 fns="Mp4Writer::finalize,finalize_standard,compute_interleave_schedule,SampleTables::from_samples" bound="2 video + 1 audio samples, all u64 pts (video reordering excluded while KF-C01 is listed), all key flags" unwind=6 stubs="build_moov_box(recording stand-in)" timeout=2400 mem=10
fin_h!(c01_std_v2a1, 2, 1, false, true, 8, 6);
//@ prop=C01 tier=thorough cost=575 fns="Mp4Writer::finalize,finalize_fast_start,compute_interleave_schedule,SampleTables::from_samples" bound="fast start, 2 video + 1 audio samples, all u64 pts, key flags K N K" unwind=6 stubs="build_moov_box(recording stand-in)" timeout=2400 mem=14
fin_h!(c01_fast_v2a1, 2, 1, true, true, 8, 6);
//@ prop=C01 tier=thorough cost=120 fns="Mp4Writer::finalize,finalize_standard,compute_interleave_schedule" bound="1 video + 1 audio sample" unwind=6 stubs="build_moov_box(recording stand-in)" covers_optional="reordered|in-order" mem=10
fin_h!(c01_std_v1a1, 1, 1, false, true, 8, 6);
//@ prop=C01 tier=thorough cost=120 fns="Mp4Writer::finalize,finalize_fast_start,compute_interleave_schedule" bound="fast start, 1 video + 1 audio sample" unwind=6 stubs="build_moov_box(recording stand-in)" covers_optional="reordered|in-order"
fin_h!(c01_fast_v1a1, 1, 1, true, true, 8, 6);
//@ prop=C01,C02 tier=quick cost=250 fns="Mp4Writer::finalize,finalize_standard" bound="audio configured but no audio samples, 2 video samples (one track per configured stream)" unwind=6 stubs="build_moov_box(recording stand-in)" mem=8
fin_h!(c01_std_v2a0, 2, 0, false, true, 8, 6);
//@ prop=C01,C02 tier=thorough cost=300 fns="Mp4Writer::finalize,finalize_fast_start" bound="fast start, audio configured but no audio samples, 2 video samples" unwind=6 stubs="build_moov_box(recording stand-in)" timeout=2400
fin_h!(c01_fast_v2a0, 2, 0, true, true, 8, 6);
//@ prop=C01 tier=thorough cost=1000 fns="Mp4Writer::finalize,finalize_standard,compute_interleave_schedule" bound="3 video + 1 audio samples" unwind=6 stubs="build_moov_box(recording stand-in)" timeout=3000 mem=30
fin_h!(c01_std_v3a1, 3, 1, false, true, 8, 7);
//@ prop=C01 tier=thorough cost=1000 fns="Mp4Writer::finalize,finalize_standard,compute_interleave_schedule" bound="2 video + 2 audio samples" unwind=6 stubs="build_moov_box(recording stand-in)" timeout=3000 mem=30
fin_h!(c01_std_v2a2, 2, 2, false, true, 8, 7);
//@ prop=C01 tier=thorough cost=1000 fns="Mp4Writer::finalize,finalize_fast_start,compute_interleave_schedule" bound="fast start, 3 video + 1 audio samples" unwind=6 stubs="build_moov_box(recording stand-in)" timeout=3000 mem=30
fin_h!(c01_fast_v3a1, 3, 1, true, true, 8, 7);
//@ prop=C01 tier=thorough cost=60 fns="Mp4Writer::finalize,finalize_standard" bound="no samples at all (video-only)" unwind=6 stubs="build_moov_box(recording stand-in)" covers_optional="*"
fin_h!(c01_std_v0, 0, 0, false, false, 8, 6);

// regression harness for the (fixed) reordered-video defect: strictly decreasing video PTS with audio
//@ prop=C01 tier=quick cost=200 fns="Mp4Writer::finalize,finalize_standard,compute_interleave_schedule" bound="2 video + 1 audio samples, video pts strictly decreasing" unwind=6 stubs="build_moov_box(recording stand-in)" timeout=1500 mem=8
#[kani::proof]
#[kani::unwind(6)]
#[kani::stub(muxide::invariant_ppt::__assert_invariant_impl, crate::stubs::assert_invariant_stub)]
#[kani::stub(muxide::muxer::mp4::build_moov_box, muxide::verif_hooks::mp4::verif::moov_recording_stub)]
pub fn c01_reordered_video_with_audio() {
    let vpts: [u64; 2] = kani::any();
    kani::assume(vpts[0] > vpts[1] && vpts[0] < (1 << 63));
    let apts: [u64; 1] = kani::any();
    let c = carrier(8);
    let mut w = build_writer::<2, 1>(RecSink::new(), vpts, [true, false], apts, true);
    let r = w.finalize(&c.track, None, false);
    assert!(r.is_ok());
    if replay_mode() {
        native_finalize_check::<2, 1>(&mp4h::sink(&w).log, &vpts, &[true, false], &apts, true, false);
        core::mem::forget((w, r));
        return;
    }
    let v = final_call(&c).video;
    let sink = mp4h::sink(&w);
    assert!(Some(v.chunk_offsets[0] as u64) == sink.pos_of(vtag(0)), "video sample 0 offset points at its own payload");
    core::mem::forget((w, r));
}
// the same in the fast-start layout (final offsets of the second pass)
//@ prop=C01 tier=quick cost=200 fns="Mp4Writer::finalize,finalize_fast_start,compute_interleave_schedule" bound="2 video + 1 audio samples, video pts strictly decreasing, fast start" unwind=6 stubs="build_moov_box(recording stand-in)" timeout=1200 mem=8
#[kani::proof]
#[kani::unwind(6)]
#[kani::stub(muxide::invariant_ppt::__assert_invariant_impl, crate::stubs::assert_invariant_stub)]
#[kani::stub(muxide::muxer::mp4::build_moov_box, muxide::verif_hooks::mp4::verif::moov_recording_stub)]
pub fn c01_reordered_video_with_audio_fast() {
    let vpts: [u64; 2] = kani::any();
    kani::assume(vpts[0] > vpts[1] && vpts[0] < (1 << 63));
    let apts: [u64; 1] = kani::any();
    let c = carrier(8);
    let mut w = build_writer::<2, 1>(RecSink::new(), vpts, [true, false], apts, true);
    let r = w.finalize(&c.track, None, true);
    assert!(r.is_ok());
    if replay_mode() {
        native_finalize_check::<2, 1>(&mp4h::sink(&w).log, &vpts, &[true, false], &apts, true, true);
        core::mem::forget((w, r));
        return;
    }
    let v = final_call(&c).video;
    let sink = mp4h::sink(&w);
    assert!(Some(v.chunk_offsets[0] as u64) == sink.pos_of(vtag(0)), "video sample 0 offset points at its own payload");
    core::mem::forget((w, r));
}
