//! Tiny big-endian / box reading helpers shared by the harnesses (harness side
//! "strict reader"). All functions index with explicit bounds assertions.

#[inline]
pub fn be16(v: &[u8], o: usize) -> u16 {
    ((v[o] as u16) << 8) | (v[o + 1] as u16)
}
#[inline]
pub fn be32(v: &[u8], o: usize) -> u32 {
    ((v[o] as u32) << 24) | ((v[o + 1] as u32) << 16) | ((v[o + 2] as u32) << 8) | (v[o + 3] as u32)
}
#[inline]
pub fn be64(v: &[u8], o: usize) -> u64 {
    ((be32(v, o) as u64) << 32) | (be32(v, o + 4) as u64)
}
#[inline]
pub fn is_type(v: &[u8], o: usize, t: &[u8; 4]) -> bool {
    v[o] == t[0] && v[o + 1] == t[1] && v[o + 2] == t[2] && v[o + 3] == t[3]
}
/// The box starting at `o` has declared size `size` and type `t`.
#[inline]
pub fn box_is(v: &[u8], o: usize, size: usize, t: &[u8; 4]) -> bool {
    o + 8 <= v.len() && be32(v, o) as usize == size && is_type(v, o + 4, t)
}
/// All bytes in [a, b) are zero (loop-free for up to 40 bytes via chunks of 4/1).
pub fn zeros(v: &[u8], a: usize, b: usize) -> bool {
    let mut i = a;
    let mut ok = true;
    while i < b {
        ok &= v[i] == 0;
        i += 1;
    }
    ok
}
/// Identity transformation matrix (9 x u32) at offset o.
pub fn identity_matrix(v: &[u8], o: usize) -> bool {
    be32(v, o) == 0x0001_0000
        && be32(v, o + 4) == 0
        && be32(v, o + 8) == 0
        && be32(v, o + 12) == 0
        && be32(v, o + 16) == 0x0001_0000
        && be32(v, o + 20) == 0
        && be32(v, o + 24) == 0
        && be32(v, o + 28) == 0
        && be32(v, o + 32) == 0x4000_0000
}

/// Generic recursive tiling check for a concrete-shaped byte string: returns the
/// number of child boxes that exactly tile [a, b), or usize::MAX on slack/overrun.
pub fn tile(v: &[u8], a: usize, b: usize, max: usize) -> usize {
    let mut o = a;
    let mut n = 0usize;
    while n < max {
        if o == b {
            return n;
        }
        if o + 8 > b {
            return usize::MAX;
        }
        let sz = be32(v, o) as usize;
        if sz < 8 || o + sz > b {
            return usize::MAX;
        }
        o += sz;
        n += 1;
    }
    if o == b {
        n
    } else {
        usize::MAX
    }
}

/// Offset of the k-th (0-based) child box inside [a, b); assumes tiling holds.
pub fn child(v: &[u8], a: usize, k: usize) -> usize {
    let mut o = a;
    let mut i = 0usize;
    while i < k {
        o += be32(v, o) as usize;
        i += 1;
    }
    o
}

/// Copy a builder's output (heap) into a fixed local array in one memcpy so that the
/// per-byte template checks read a stack array (cheap for CBMC) instead of the heap.
pub fn snap<const N: usize>(v: &[u8]) -> [u8; N] {
    assert!(v.len() == N, "builder output has an unexpected total length");
    let mut a = [0u8; N];
    a.copy_from_slice(v);
    a
}

/// Snapshot of a builder output whose length is only known to be <= MAX.
pub fn snapn<const MAX: usize>(v: &[u8]) -> ([u8; MAX], usize) {
    let n = v.len();
    assert!(n <= MAX, "builder output longer than the snapshot buffer");
    let mut a = [0u8; MAX];
    a[..n].copy_from_slice(v);
    (a, n)
}

/// The children of the container payload [a, b) are exactly the boxes of the given types,
/// in order, tiling the range; returns their offsets.
pub fn expect_children<const N: usize>(v: &[u8], a: usize, b: usize, types: [&[u8; 4]; N]) -> [usize; N] {
    let mut offs = [0usize; N];
    let mut o = a;
    let mut i = 0;
    while i < N {
        assert!(o + 8 <= b, "child box header overruns its parent");
        let sz = be32(v, o) as usize;
        assert!(sz >= 8 && o + sz <= b, "child box size overruns its parent");
        assert!(is_type(v, o + 4, types[i]), "unexpected child box type / order");
        offs[i] = o;
        o += sz;
        i += 1;
    }
    assert!(o == b, "children do not tile their parent exactly (slack)");
    offs
}

/// Like `expect_children`, but navigates with the EXPECTED concrete sizes (so that positions
/// stay concrete for CBMC) and asserts that every declared size equals the expected one.
pub fn expect_sized<const N: usize>(v: &[u8], a: usize, b: usize, kids: [(&[u8; 4], usize); N]) -> [usize; N] {
    let mut offs = [0usize; N];
    let mut o = a;
    let mut i = 0;
    while i < N {
        let (t, sz) = kids[i];
        assert!(o + sz <= b, "child box overruns its parent");
        assert!(be32(v, o) as usize == sz, "declared child size differs from the size the layout requires");
        assert!(is_type(v, o + 4, t), "unexpected child box type / order");
        offs[i] = o;
        o += sz;
        i += 1;
    }
    assert!(o == b, "children do not tile their parent exactly (slack)");
    offs
}
