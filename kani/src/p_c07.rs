//! C07 — the codec configuration in the file is exactly that of the submitted stream.
//! Extraction kernels are decided against reference models; the record builders
//! (avcC/hvcC/av1C/vpcC/esds/dOps, sample entries) are the C19 harnesses, also registered
//! for C07.
use crate::bx::*;
use crate::ref_annexb::*;
use crate::ref_av1::*;
use crate::stubs::*;
use muxide::codec::{av1, h264, h265, vp9};
use muxide::verif_hooks::mp4::verif as mp4h;

macro_rules! h {
    ($name:ident, $unw:expr, $body:block) => {
        #[kani::proof]
        #[kani::unwind($unw)]
        #[kani::stub(muxide::invariant_ppt::__assert_invariant_impl, crate::stubs::assert_invariant_stub)]
        pub fn $name() {
            $body;
        }
    };
}

// ---------------------------------------------------------------------------
// H.264: first NAL of type 7 and first of type 8 among the non-empty reference units
// ---------------------------------------------------------------------------
fn first_of(d: &[u8], units: &[(usize, usize); MAXU], n: usize, pred: fn(u8) -> bool) -> Option<(usize, usize)> {
    let mut k = 0;
    while k < MAXU {
        if k < n {
            let (s, e) = units[k];
            if e > s && pred(d[s]) {
                return Some((s, e));
            }
        }
        k += 1;
    }
    None
}
fn same_bytes<const L: usize>(got: &[u8], d: &[u8; L], s: usize, e: usize) -> bool {
    if got.len() != e - s {
        return false;
    }
    let mut ok = true;
    let mut i = 0;
    while i < L {
        if i < e - s {
            ok &= got[i] == d[s + i];
        }
        i += 1;
    }
    ok
}

macro_rules! avc_h {
    ($name:ident, $l:expr, $unw:expr) => {
        h!($name, $unw, {
            let d: [u8; $l] = kani::any();
            let r = h264::extract_avc_config(&d[..]);
            let (units, n) = ref_units(&d[..]);
            let sps = first_of(&d[..], &units, n, |b| b & 0x1f == 7);
            let pps = first_of(&d[..], &units, n, |b| b & 0x1f == 8);
            match (&r, sps, pps) {
                (Some(c), Some((ss, se)), Some((ps, pe))) => {
                    assert!(same_bytes::<$l>(&c.sps, &d, ss, se), "SPS = first NAL of type 7, byte for byte");
                    assert!(same_bytes::<$l>(&c.pps, &d, ps, pe), "PPS = first NAL of type 8, byte for byte");
                }
                (None, s, p) => assert!(s.is_none() || p.is_none(), "config missing although SPS and PPS are present"),
                _ => panic!("config returned although SPS or PPS is missing"),
            }
            crate::vcover!(r.is_some(), "SPS and PPS found");
            crate::vcover!(r.is_none() && sps.is_some(), "SPS without PPS");
            core::mem::forget(r);
        });
    };
}
//@ prop=C07 tier=quick cost=200 fns="codec::h264::extract_avc_config,AnnexBNalIter::next" bound="all byte strings of length 8" unwind=11 timeout=1200 mem=12
avc_h!(c07_avc_extract_len8, 8, 11);
//@ prop=C07 tier=thorough cost=600 fns="codec::h264::extract_avc_config,AnnexBNalIter::next" bound="all byte strings of length 9" unwind=12 timeout=3000 mem=30
avc_h!(c07_avc_extract_len9, 9, 12);

// constructive: SPS, a LATER DIFFERENT SPS, PPS, slice — concrete layout, symbolic bodies
//@ prop=C07 tier=thorough cost=600 mem=30 fns="codec::h264::extract_avc_config" bound="layout [4-byte code, SPS(2B)] [3-byte code, SPS'(2B)] [3-byte code, PPS(2B)] [4-byte code, IDR(2B)] with symbolic body bytes >= 2" unwind=30 timeout=900
h!(c07_avc_first_sps_wins, 30, {
    let b: [u8; 4] = kani::any();
    kani::assume(b[0] >= 2 && b[1] >= 2 && b[2] >= 2 && b[3] >= 2);
    let d = [0u8, 0, 0, 1, 0x67, b[0], 0, 0, 1, 0x67, b[1], 0, 0, 1, 0x68, b[2], 0, 0, 0, 1, 0x65, b[3]];
    let r = h264::extract_avc_config(&d[..]);
    let c = r.as_ref().expect("config present");
    assert!(c.sps.len() == 2 && c.sps[0] == 0x67 && c.sps[1] == b[0], "the FIRST SPS is taken, not a later one");
    assert!(c.pps.len() == 2 && c.pps[0] == 0x68 && c.pps[1] == b[2]);
    crate::vcover!(b[0] != b[1], "later SPS differs");
    core::mem::forget(r);
});

macro_rules! hevc_h {
    ($name:ident, $l:expr, $unw:expr) => {
        h!($name, $unw, {
            let d: [u8; $l] = kani::any();
            let r = h265::extract_hevc_config(&d[..]);
            let (units, n) = ref_units(&d[..]);
            let vps = first_of(&d[..], &units, n, |b| (b >> 1) & 0x3f == 32);
            let sps = first_of(&d[..], &units, n, |b| (b >> 1) & 0x3f == 33);
            let pps = first_of(&d[..], &units, n, |b| (b >> 1) & 0x3f == 34);
            match (&r, vps, sps, pps) {
                (Some(c), Some((vs, ve)), Some((ss, se)), Some((ps, pe))) => {
                    assert!(same_bytes::<$l>(&c.vps, &d, vs, ve) && same_bytes::<$l>(&c.sps, &d, ss, se) && same_bytes::<$l>(&c.pps, &d, ps, pe), "VPS/SPS/PPS = first NAL of type 32/33/34, byte for byte");
                }
                (None, v, s, p) => assert!(v.is_none() || s.is_none() || p.is_none(), "config missing although all three parameter sets are present"),
                _ => panic!("config returned although a parameter set is missing"),
            }
            crate::vcover!(r.is_none() && vps.is_some(), "VPS without the rest");
            core::mem::forget(r);
        });
    };
}
//@ prop=C07 tier=quick cost=200 fns="codec::h265::extract_hevc_config,hevc_nal_type" bound="all byte strings of length 8 (too short to hold all three sets: rejection side)" unwind=11 timeout=1200 mem=12
hevc_h!(c07_hevc_extract_len8, 8, 11);
//@ prop=C07 tier=thorough cost=900 mem=30 fns="codec::h265::extract_hevc_config" bound="layout VPS, SPS, SPS', PPS, IDR with 3-/4-byte codes, symbolic second header bytes >= 2" unwind=40 timeout=900
h!(c07_hevc_first_sets_win, 40, {
    let b: [u8; 5] = kani::any();
    let mut i = 0;
    while i < 5 {
        kani::assume(b[i] >= 2);
        i += 1;
    }
    let d = [0u8, 0, 0, 1, 0x40, b[0], 0, 0, 1, 0x42, b[1], 0, 0, 1, 0x42, b[2], 0, 0, 0, 1, 0x44, b[3], 0, 0, 1, 0x26, b[4]];
    let r = h265::extract_hevc_config(&d[..]);
    let c = r.as_ref().expect("config present");
    assert!(c.vps.len() == 2 && c.vps[1] == b[0] && c.sps.len() == 2 && c.sps[1] == b[1] && c.pps.len() == 2 && c.pps[1] == b[3], "first VPS/SPS/PPS are taken");
    crate::vcover!(b[1] != b[2], "later SPS differs");
    core::mem::forget(r);
});

// ---------------------------------------------------------------------------
// AV1: extract_av1_config agrees with the reference sequence_header_obu() syntax
// ---------------------------------------------------------------------------
fn av1_body<const P: usize, const T: usize>() {
    let payload: [u8; P] = kani::any();
    let refr = ref_sequence_header::<P>(&payload);
    kani::assume(refr != RefResult::OutOfScope);
    // known finding: for monochrome streams the parser reads a chroma_sample_position that the
    // syntax does not contain (and everything after it is shifted by two bits)
    if crate::known::KF_C07_AV1_MONOCHROME_CSP {
        if let RefResult::Parsed(s) = refr {
            kani::assume(!s.mono_chrome);
        }
    }
    let mut obu = [0u8; T];
    obu[0] = 0x0a; // OBU_SEQUENCE_HEADER, has_size_field
    obu[1] = P as u8;
    let mut i = 0;
    while i < P {
        obu[2 + i] = payload[i];
        i += 1;
    }
    let r = av1::extract_av1_config(&obu[..]);
    match (&r, refr) {
        (Some(c), RefResult::Parsed(s)) => {
            assert!(c.seq_profile == s.seq_profile, "seq_profile");
            assert!(c.seq_level_idx == s.seq_level_idx0, "seq_level_idx[0]");
            assert!(c.seq_tier == s.seq_tier0, "seq_tier[0]");
            assert!(c.high_bitdepth == s.high_bitdepth && c.twelve_bit == s.twelve_bit, "bit depth flags");
            assert!(c.monochrome == s.mono_chrome, "mono_chrome");
            assert!(c.chroma_subsampling_x == s.subsampling_x && c.chroma_subsampling_y == s.subsampling_y, "chroma subsampling");
            assert!(c.chroma_sample_position == s.chroma_sample_position, "chroma_sample_position");
            assert!(c.sequence_header.len() == T, "sequence header OBU stored whole");
            let sh = snap::<T>(&c.sequence_header);
            assert!(sh == obu, "sequence header OBU stored byte for byte");
        }
        (None, RefResult::Truncated) => {}
        (Some(_), RefResult::Truncated) => panic!("config extracted from a header that ends before film_grain_params_present"),
        (None, RefResult::Parsed(_)) => panic!("syntactically complete sequence header rejected"),
        _ => {}
    }
    if let RefResult::Parsed(s) = refr {
        crate::vcover!(s.reduced, "reduced_still_picture_header path");
        crate::vcover!(!s.reduced && !s.timing_info, "ordinary header without timing_info");
        crate::vcover!(s.color_description, "color_description present");
        crate::vcover!(s.seq_profile == 1, "profile 1 (4:4:4)");
        crate::vcover!(s.seq_profile == 2 && s.twelve_bit, "profile 2, 12 bit");
    }
    crate::vcover!(refr == RefResult::Truncated, "truncated header");
    core::mem::forget(r);
}
macro_rules! av1_h {
    ($name:ident, $p:expr, $t:expr) => {
        h!($name, 34, { av1_body::<$p, $t>() });
    };
}
//@ prop=C07,C12 tier_C12=thorough tier=thorough cost=300 fns="codec::av1::extract_av1_config,parse_sequence_header,parse_color_config,BitReader,ObuIter::next,parse_obu_header,read_leb128" bound="all 5-byte sequence-header payloads (operating_points_cnt <= 2, seq_profile <= 2)" unwind=34 unwindset="muxide::codec::av1::parse_sequence_header.0:3,muxide::codec::av1::skip_uvlc.0:10" timeout=1400 mem=12 covers_optional="color_description|profile 2, 12|ordinary header"
av1_h!(c07_av1_payload5, 5, 7);
//@ prop=C07,C12 tier_C12=thorough tier=quick cost=400 fns="codec::av1::extract_av1_config,parse_sequence_header,parse_color_config,BitReader" bound="all 7-byte sequence-header payloads (operating_points_cnt <= 2, seq_profile <= 2)" unwind=34 unwindset="muxide::codec::av1::parse_sequence_header.0:3,muxide::codec::av1::skip_uvlc.0:10" timeout=1400 mem=12 covers_optional="12 bit|ordinary header"
av1_h!(c07_av1_payload7, 7, 9);
//@ prop=C07,C12 tier=thorough tier_C12=thorough cost=900 fns="codec::av1::extract_av1_config,parse_sequence_header,parse_color_config,BitReader" bound="all 10-byte sequence-header payloads" unwind=34 unwindset="muxide::codec::av1::parse_sequence_header.0:3,muxide::codec::av1::skip_uvlc.0:10" timeout=3000 mem=12
av1_h!(c07_av1_payload10, 10, 12);
//@ prop=C07,C12 tier=thorough cost=1500 fns="codec::av1::extract_av1_config,parse_sequence_header,parse_color_config,skip_uvlc,BitReader" bound="all 13-byte sequence-header payloads (timing_info reachable)" unwind=34 unwindset="muxide::codec::av1::parse_sequence_header.0:3,muxide::codec::av1::skip_uvlc.0:10" timeout=3000 mem=30
av1_h!(c07_av1_payload13, 13, 15);

// witness for the monochrome finding
//@ prop=C07 tier=thorough cost=300 fns="codec::av1::extract_av1_config,parse_color_config" bound="all 5-byte payloads that the reference parses as monochrome" unwind=34 unwindset="muxide::codec::av1::parse_sequence_header.0:3,muxide::codec::av1::skip_uvlc.0:10" timeout=1400 mem=12 expect=fail kf=KF-C07-av1-monochrome-csp
h!(c07_w_av1_monochrome, 34, {
    let payload: [u8; 5] = kani::any();
    let refr = ref_sequence_header::<5>(&payload);
    let s = match refr {
        RefResult::Parsed(s) => s,
        _ => return,
    };
    kani::assume(s.mono_chrome);
    let mut obu = [0u8; 7];
    obu[0] = 0x0a;
    obu[1] = 5;
    let mut i = 0;
    while i < 5 {
        obu[2 + i] = payload[i];
        i += 1;
    }
    let r = av1::extract_av1_config(&obu[..]);
    match &r {
        Some(c) => assert!(c.chroma_sample_position == 0 && c.monochrome, "monochrome: chroma_sample_position is CSP_UNKNOWN"),
        None => panic!("complete monochrome sequence header rejected"),
    }
    core::mem::forget(r);
});

// ---------------------------------------------------------------------------
// VP9: extract_vp9_config vs the accepted form documented in codec/vp9.rs
// ---------------------------------------------------------------------------
fn ref_var_uint(d: &[u8], mut o: usize) -> Option<(u32, usize)> {
    let mut v = 0u32;
    let mut shift = 0u32;
    let mut k = 0;
    while k < 5 {
        if o >= d.len() {
            return None;
        }
        let b = d[o];
        o += 1;
        v |= ((b & 0x7f) as u32) << shift;
        shift += 7;
        if b & 0x80 == 0 {
            return Some((v, o));
        }
        if shift >= 32 {
            return None;
        }
        k += 1;
    }
    None
}
#[derive(PartialEq, Eq, Clone, Copy)]
struct RefVp9 {
    width: u32,
    height: u32,
    profile: u8,
    bit_depth: u8,
    color_space: u8,
    transfer: u8,
    matrix: u8,
    full_range: u8,
}
fn ref_vp9(d: &[u8]) -> Option<RefVp9> {
    if d.len() < 6 || d[0] != 0x49 || d[1] != 0x83 || d[2] != 0x42 {
        return None;
    }
    let profile = d[3] >> 6;
    if (d[3] >> 5) & 1 != 0 || (d[3] >> 4) & 1 != 0 {
        return None; // show_existing_frame or not a key frame
    }
    let mut o = 5;
    if profile >= 2 {
        if o + 1 >= d.len() {
            return None;
        }
        o += 1;
    }
    let (w, o1) = ref_var_uint(d, o)?;
    let (hh, o2) = ref_var_uint(d, o1)?;
    let mut o = o2;
    let (mut rw, mut rh) = (w, hh);
    if o + 1 < d.len() && d[o] & 0x0c != 0 {
        let (a, p) = ref_var_uint(d, o + 1)?;
        let (b, q) = ref_var_uint(d, p)?;
        rw = a;
        rh = b;
        o = q;
    }
    if o >= d.len() {
        return Some(RefVp9 { width: rw, height: rh, profile, bit_depth: 8, color_space: 0, transfer: 0, matrix: 0, full_range: 0 });
    }
    let c = d[o];
    let cs = (c >> 1) & 7;
    let fr = if cs != 0 && o + 1 < d.len() { d[o + 1] & 1 } else { 0 };
    Some(RefVp9 { width: rw, height: rh, profile, bit_depth: if c & 1 != 0 { 10 } else { 8 }, color_space: cs, transfer: (c >> 4) & 7, matrix: c >> 7, full_range: fr })
}
macro_rules! vp9_h {
    ($name:ident, $l:expr) => {
        h!($name, 8, {
            let d: [u8; $l] = kani::any();
            let r = vp9::extract_vp9_config(&d[..]);
            let want = ref_vp9(&d[..]);
            match (&r, want) {
                (Some(c), Some(w)) => {
                    assert!(c.width == w.width && c.height == w.height, "dimensions");
                    assert!(c.profile == w.profile && c.bit_depth == w.bit_depth, "profile / bit depth");
                    assert!(c.color_space == w.color_space && c.transfer_function == w.transfer && c.matrix_coefficients == w.matrix && c.full_range_flag == w.full_range, "colour fields");
                    assert!(c.level == 0);
                }
                (None, None) => {}
                _ => panic!("accept/reject differs from the documented VP9 keyframe form"),
            }
            crate::vcover!(r.is_some(), "accepted");
            crate::vcover!(matches!(want, Some(w) if w.profile >= 2), "profile >= 2");
            crate::vcover!(d[0] == 0x49 && d[1] == 0x83 && d[2] == 0x42 && r.is_none(), "frame marker present but rejected");
            core::mem::forget(r);
        });
    };
}
//@ prop=C07 tier=quick cost=60 fns="codec::vp9::extract_vp9_config,parse_vp9_var_uint,parse_vp9_color_config" bound="all byte strings of length 10" unwind=8
vp9_h!(c07_vp9_len10, 10);
//@ prop=C07 tier=quick cost=60 fns="codec::vp9::extract_vp9_config,parse_vp9_var_uint,parse_vp9_color_config" bound="all byte strings of length 7" unwind=8 covers_optional="profile >= 2"
vp9_h!(c07_vp9_len7, 7);
//@ prop=C07 tier=thorough cost=120 fns="codec::vp9::extract_vp9_config,parse_vp9_var_uint,parse_vp9_color_config" bound="all byte strings of length 14" unwind=8
vp9_h!(c07_vp9_len14, 14);

// ---------------------------------------------------------------------------
// AudioSpecificConfig: sampling index for the 13 standard rates, channel configuration
// ---------------------------------------------------------------------------
//@ prop=C07 tier=quick cost=20 fns="muxer::mp4::build_audio_specific_config" bound="all u32 sample rates, all u16 channel counts" unwind=15
h!(c07_asc, 15, {
    const RATES: [u32; 13] = [96000, 88200, 64000, 48000, 44100, 32000, 24000, 22050, 16000, 12000, 11025, 8000, 7350];
    let rate: u32 = kani::any();
    let ch: u16 = kani::any();
    let a = mp4h::build_audio_specific_config(rate, ch);
    let aot = a[0] >> 3;
    let sfi = ((a[0] & 7) << 1) | (a[1] >> 7);
    let cc = (a[1] >> 3) & 0x0f;
    assert!(aot == 2, "AAC-LC object type");
    let mut k = 0;
    while k < 13 {
        if rate == RATES[k] {
            assert!(sfi as usize == k, "samplingFrequencyIndex of a standard rate");
        }
        k += 1;
    }
    if ch <= 7 {
        assert!(cc as u16 == ch, "channelConfiguration = channel count (1..7)");
    }
    assert!(a[1] & 7 == 0, "GASpecificConfig flags zero");
    crate::vcover!(rate == 7350, "lowest standard rate");
});

// ---------------------------------------------------------------------------
// the first keyframe's configuration is what the writer keeps (plumbing into the writer state)
// ---------------------------------------------------------------------------
//@ prop=C07 tier=quick cost=200 fns="Mp4Writer::write_video_sample_with_dts,extract_avc_config" bound="H.264 keyframe [SPS(3B) PPS(2B) IDR(2B)] with symbolic body bytes >= 2; second keyframe with different parameter sets" unwind=30 timeout=900
h!(c07_writer_keeps_first_config, 30, {
    use muxide::api::VideoCodec;
    use muxide::verif_hooks::mp4::{Mp4Writer, VideoConfig};
    struct Null;
    impl std::io::Write for Null {
        fn write(&mut self, b: &[u8]) -> std::io::Result<usize> { Ok(b.len()) }
        fn flush(&mut self) -> std::io::Result<()> { Ok(()) }
    }
    let b: [u8; 4] = kani::any();
    kani::assume(b[0] >= 2 && b[1] >= 2 && b[2] >= 2 && b[3] >= 2);
    let f1 = [0u8, 0, 0, 1, 0x67, b[0], b[1], 0, 0, 0, 1, 0x68, b[2], 0, 0, 0, 1, 0x65, 0x88];
    let f2 = [0u8, 0, 0, 1, 0x67, b[3], b[3], 0, 0, 0, 1, 0x68, b[3], 0, 0, 0, 1, 0x65, 0x88];
    let mut w = Mp4Writer::new(Null, VideoCodec::H264);
    assert!(w.write_video_sample_with_dts(0, 0, &f1, true).is_ok());
    assert!(w.write_video_sample_with_dts(3000, 3000, &f2, true).is_ok());
    match mp4h::video_config(&w) {
        Some(VideoConfig::Avc(c)) => {
            assert!(c.sps.len() == 3 && c.sps[1] == b[0] && c.sps[2] == b[1], "SPS of the FIRST keyframe is kept");
            assert!(c.pps.len() == 2 && c.pps[1] == b[2], "PPS of the FIRST keyframe is kept");
        }
        _ => panic!("AVC configuration expected"),
    }
    crate::vcover!(b[3] != b[0], "later parameter sets differ");
    core::mem::forget(w);
});
