//! Native cross-check of the AV1 reference model against the implementation on random
//! payloads (debug aid for the reference itself; the deciding check is the Kani harness).
use muxide::codec::av1::extract_av1_config;
use muxide_verif::ref_av1::*;

fn lcg(s: &mut u64) -> u64 {
    *s = s.wrapping_mul(6364136223846793005).wrapping_add(1442695040888963407);
    *s >> 11
}

fn run<const P: usize>(iters: usize, seed: u64) -> usize {
    let mut s = seed;
    let mut mismatches = 0;
    for _ in 0..iters {
        let mut p = [0u8; P];
        for b in p.iter_mut() {
            // bias towards small values so that flags are often 0
            let r = lcg(&mut s);
            *b = if r & 3 == 0 { (r >> 8) as u8 } else { ((r >> 8) & (r >> 16) & 0xff) as u8 };
        }
        let r = ref_sequence_header::<P>(&p);
        let mut obu = vec![0x0a, P as u8];
        obu.extend_from_slice(&p);
        let got = std::panic::catch_unwind(|| extract_av1_config(&obu));
        let got = match got { Ok(g) => g, Err(_) => { println!("PANIC on {:02x?}", p); mismatches += 1; continue; } };
        match (r, &got) {
            (RefResult::OutOfScope, _) => {}
            (RefResult::Truncated, None) => {}
            (RefResult::Parsed(x), Some(c)) => {
                let same = c.seq_profile == x.seq_profile && c.seq_level_idx == x.seq_level_idx0 && c.seq_tier == x.seq_tier0
                    && c.high_bitdepth == x.high_bitdepth && c.twelve_bit == x.twelve_bit && c.monochrome == x.mono_chrome
                    && c.chroma_subsampling_x == x.subsampling_x && c.chroma_subsampling_y == x.subsampling_y
                    && (x.mono_chrome || c.chroma_sample_position == x.chroma_sample_position);
                if !same && mismatches < 5 { println!("FIELD MISMATCH {:02x?}\n  ref {:?}\n  got {:?}", p, x, c); }
                if !same { mismatches += 1; }
            }
            (a, b) => {
                if let RefResult::Parsed(x) = a { if x.mono_chrome { continue; } }
                if mismatches < 5 { println!("ACCEPT MISMATCH {:02x?}\n  ref {:?}\n  got {:?}", p, a, b.is_some()); }
                mismatches += 1;
            }
        }
    }
    mismatches
}

#[test]
fn reference_agrees_with_implementation_on_random_payloads() {
    let mut total = 0;
    total += run::<8>(300_000, 1);
    total += run::<10>(300_000, 2);
    total += run::<13>(300_000, 3);
    total += run::<16>(300_000, 4);
    assert_eq!(total, 0, "reference and implementation disagree outside the known monochrome finding");
}
