#!/usr/bin/env python3
"""confirm_seed.py <id> : confirm a seeded change in its scratch worktree /tmp/seed/<id> and,
if it holds up, store it under /verif/seeded/<id>/ (patch.diff, demo.rs, meta.json)."""
import json, os, re, subprocess, sys, shutil
sid = sys.argv[1]
prop = sys.argv[2] if len(sys.argv) > 2 else sid
wt = f"/tmp/seed/{sid}"
env = dict(os.environ, CARGO_NET_OFFLINE="true")
def run(cmd, **kw):
    return subprocess.run(cmd, cwd=wt, env=env, capture_output=True, text=True, **kw)
patch = open(f"{wt}/patch.diff").read()
cur = run(["git", "diff", "--", "src"]).stdout
if cur.strip() != patch.strip():
    print("working tree differs from patch.diff; re-applying"); run(["git", "checkout", "--", "src"]); r = run(["git", "apply", "patch.diff"]); assert r.returncode == 0, r.stderr
assert os.path.exists(f"{wt}/tests/seeded_demo.rs")
b = run(["cargo", "build", "--offline", "--features", "verif"])
assert b.returncode == 0, "verif build fails with the patch\n" + b.stderr[-2000:]
t = subprocess.run(["cargo", "test", "--offline", "--no-fail-fast"], cwd=wt, env=env, stdout=subprocess.PIPE, stderr=subprocess.STDOUT, text=True)
out = t.stdout
# per test binary results
results = []
segs = re.split(r"\n\s+Running ", out)
for seg in segs[1:]:
    name = seg.split("\n", 1)[0].strip()
    for m_ in re.finditer(r"test result: (\w+)\. (\d+) passed; (\d+) failed", seg):
        results.append((name, m_.group(1), m_.group(2), m_.group(3)))
for m_ in re.finditer(r"Doc-tests.*?test result: (\w+)\. (\d+) passed; (\d+) failed", out, re.S):
    pass
failed_bins = [(b_, int(f)) for b_, st, p, f in results if int(f) > 0]
total_pass = sum(int(p) for _, _, p, _ in results)
only_demo = all("seeded_demo" in b_ for b_, _ in failed_bins) and len(failed_bins) >= 1
print("with patch: failing binaries:", failed_bins, "total passed:", total_pass)
r = run(["git", "apply", "-R", "patch.diff"]); assert r.returncode == 0, r.stderr
t2 = run(["cargo", "test", "--offline", "--test", "seeded_demo"])
m = re.search(r"test result: (\w+)\. (\d+) passed; (\d+) failed", t2.stdout + t2.stderr)
orig_ok = bool(m) and m.group(1) == "ok" and int(m.group(3)) == 0
print("without patch: seeded_demo:", m.group(0) if m else "no result")
r = run(["git", "apply", "patch.diff"]); assert r.returncode == 0, r.stderr
ok = only_demo and orig_ok
print("CONFIRMED" if ok else "NOT CONFIRMED")
if ok:
    d = f"/verif/seeded/{sid}"
    os.makedirs(d, exist_ok=True)
    shutil.copy(f"{wt}/patch.diff", f"{d}/patch.diff")
    shutil.copy(f"{wt}/tests/seeded_demo.rs", f"{d}/demo.rs")
    meta_txt = open(f"{wt}/meta.txt").read() if os.path.exists(f"{wt}/meta.txt") else ""
    json.dump(dict(seed=sid, property=prop, description=meta_txt,
                   confirmed=dict(cmd_with_patch="cargo build --offline --features verif && cargo test --offline --no-fail-fast (in a scratch worktree of /repo HEAD with patch.diff applied and demo.rs as tests/seeded_demo.rs)",
                                  with_patch_failing_test_binaries=[b_ for b_, _ in failed_bins], with_patch_tests_passed=total_pass,
                                  cmd_without_patch="git apply -R patch.diff && cargo test --offline --test seeded_demo",
                                  without_patch_demo="passes"),
                   checks_run=[]), open(f"{d}/meta.json", "w"), indent=1)
sys.exit(0 if ok else 1)
