#!/bin/sh
# convenience: run every claimed property's quick check sequentially (writes evidence)
cd "$(dirname "$0")"
for p in C14 C19 C16 C04 C05 C03 C18 C15 C06 C09 C02 C12 C10 C11 C07 C08 C13 C01; do
  ./check $p --tier quick > .work/quick_$p.log 2>&1
  echo "$p exit=$? $(tail -1 .work/quick_$p.log)"
done
